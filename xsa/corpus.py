"""Self-test corpus: one-edit mutants (must be reported) and benign refactors (must be silent).

Anchors are texts of the current /repo tree; a case whose anchor is gone is skipped.
"""

CASES: list[dict] = []


def M(prop, name, file, old, new, expect, count=1, **kw):
    CASES.append(dict(prop=prop, kind="mutant", name=name, file=file, old=old, new=new, expect=expect, count=count, **kw))


def B(prop, name, file, old, new, count=1, **kw):
    CASES.append(dict(prop=prop, kind="benign", name=name, file=file, old=old, new=new, expect="", count=count, **kw))


EOFPY = "xeofs/single/eof.py"
DEC = "xeofs/linalg/decomposer.py"
SVD = "xeofs/linalg/_numpy/_svd.py"
XU = "xeofs/utils/xarray_utils.py"

# ---------------------------------------------------------------- C01
M("C01", "expvar /n", EOFPY, "exp_var = singular_values**2 / (n_samples - 1)", "exp_var = singular_values**2 / n_samples", "NORM.explained_variance.denominator")
M("C01", "expvar not squared", EOFPY, "exp_var = singular_values**2 / (n_samples - 1)", "exp_var = singular_values / (n_samples - 1)", "NORM.explained_variance.power")
M("C01", "expvar /(n-1)^2", EOFPY, "exp_var = singular_values**2 / (n_samples - 1)", "exp_var = singular_values**2 / (n_samples - 1) / (n_samples - 1)", "NORM.explained_variance.single_div")
M("C01", "expvar n from features", EOFPY, "n_samples = X.coords[self.sample_name].size", "n_samples = X.coords[self.feature_name].size", "NORM.explained_variance.denominator")
M("C01", "total variance ddof=0", XU, "return data.var(dim, ddof=1).sum()", "return data.var(dim, ddof=0).sum()", "NORM.total_variance.ddof")
M("C01", "total variance along features", EOFPY, "total_variance = compute_total_variance(X, dim=sample_name)", "total_variance = compute_total_variance(X, dim=feature_name)", "NORM.total_variance.dim")
M("C01", "drop conj in Decomposer V_", DEC, "self.V_ = VT.conj().transpose(dims[1], self.component_dim_name)", "self.V_ = VT.transpose(dims[1], self.component_dim_name)", "CONJ.decomposer.V")
M("C01", "drop conj in _SVD V", SVD, "V = VT.conj().T", "V = VT.T", "CONJ.svd.V")
M("C01", "drop conj in EOF inverse", EOFPY, 'reconstructed_data = xr.dot(comps.conj(), scores, dims="mode")', 'reconstructed_data = xr.dot(comps, scores, dims="mode")', "CONJ.reconstruct")
M("C01", "conj in EOF transform", EOFPY, "projections = xr.dot(X, components, dims=feature_name)", "projections = xr.dot(X, components.conj(), dims=feature_name)", "CONJ.project")
M("C01", "drop [::-1] svds Decomposer", DEC, "idx_sort = np.argsort(s)[::-1]", "idx_sort = np.argsort(s)", "SORT.resort.key")
M("C01", "svds VT not resorted", SVD, "            VT = VT[idx_sort, :]\n", "            VT = VT\n", "SORT.resort")
M("C01", "truncate suffix", DEC, "s = s[: self.n_modes_precompute]", "s = s[-self.n_modes_precompute :]", "SORT.prefix")
M("C01", "scores without s", EOFPY, "scores = decomposer.U_ * decomposer.s_", "scores = decomposer.U_", "WIRE.scores")
M("C01", "components from U", EOFPY, "components = decomposer.V_", "components = decomposer.U_", "WIRE.components")
M("C01", "total variance before augmentation", EOFPY,
  "        X = self._augment_data(X)\n\n        # Compute the total variance\n        total_variance = compute_total_variance(X, dim=sample_name)\n",
  "        # Compute the total variance\n        total_variance = compute_total_variance(X, dim=sample_name)\n\n        X = self._augment_data(X)\n",
  "WIRE.same_matrix.total_variance")
M("C01", "hilbert dims swapped", EOFPY, "dims=(self.sample_name, self.feature_name),\n            padding=padding,", "dims=(self.feature_name, self.sample_name),\n            padding=padding,", "WIRE.hilbert.dims")
B("C01", "hoist dof", EOFPY, "exp_var = singular_values**2 / (n_samples - 1)", "dof = n_samples - 1\n        exp_var = singular_values**2 / dof")
B("C01", "rename locals", EOFPY, "singular_values", "svals", count=5)
B("C01", "split conj chain", DEC, "self.V_ = VT.conj().transpose(dims[1], self.component_dim_name)", "VH = VT.conj()\n        self.V_ = VH.transpose(dims[1], self.component_dim_name)")
B("C01", "swap factor order", EOFPY, "scores = decomposer.U_ * decomposer.s_", "scores = decomposer.s_ * decomposer.U_")

# ---------------------------------------------------------------- C07
M("C07", "literal in EOF fit", EOFPY, "n_samples = X.coords[self.sample_name].size", 'n_samples = X.coords["sample"].size', "NAMES.literal")
M("C07", "attribute access", "xeofs/single/eof_rotator.py", 'n_samples = model.data["input_data"].coords[self.sample_name].size', 'n_samples = model.data["input_data"].sample.size', "NAMES.literal")
M("C07", "keyword designator", "xeofs/single/opa.py", "Xtau = X.shift({sample_name: -tau}).dropna(sample_name)", "Xtau = X.shift(sample=-tau).dropna(sample_name)", "NAMES.literal")
M("C07", "Decomposer.fit default dims", EOFPY, "decomposer.fit(X, dims=(sample_name, feature_name))", "decomposer.fit(X)", "NAMES.default")
M("C07", "OPA inner EOF without names", "xeofs/single/opa.py", "            sample_name=self.sample_name,\n            feature_name=self.feature_name,\n            solver=self._params[\"solver\"],", "            solver=self._params[\"solver\"],", "NAMES.default")
M("C07", "bootstrapper dim literal", "xeofs/validation/bootstrapper.py", "bst_model.fit(bst_data, dim=sample_name)", 'bst_model.fit(bst_data, dim="sample")', "NAMES.literal")
M("C07", "stacker canonical order", "xeofs/preprocessing/stacker.py", "X = X.transpose(sample_name, feature_name)", "X = X.transpose(feature_name, sample_name)", "NAMES.canonical")
M("C07", "module constant", "xeofs/single/pop.py", "class POP(BaseModelSingleSet):", 'SAMPLE_DIM = "sample"\n\n\nclass POP(BaseModelSingleSet):', "NAMES.literal")
B("C07", "local alias of names", EOFPY, "        n_samples = X.coords[self.sample_name].size", "        sn = self.sample_name\n        n_samples = X.coords[sn].size")
B("C07", "error message mentions sample", "xeofs/preprocessing/stacker.py", 'raise ValueError("Sample dimension must not be empty.")', 'raise ValueError("The sample dimension must not be empty; got no sample.")', count=2)

# ---------------------------------------------------------------- C10
M("C10", "ComplexRDA alpha swapped", "xeofs/cross/rda.py", "alpha=[0.0, 1.0]", "alpha=[1.0, 0.0]", "SPECIAL.alpha.pin", count=3,
  edits=[("        ComplexCPCCA.__init__(\n            self,\n            n_modes=n_modes,\n            alpha=[0.0, 1.0],", "        ComplexCPCCA.__init__(\n            self,\n            n_modes=n_modes,\n            alpha=[1.0, 0.0],")])
M("C10", "HilbertCCA keeps alpha", "xeofs/cross/cca.py", 'self._params.pop("alpha")', "pass", "SPECIAL.alpha.params", count=3,
  edits=[('        self.attrs.update({"model": "Hilbert CCA"})\n        # Renove alpha from the inherited CPCCA serialization params because it is hard-coded for CCA\n        self._params.pop("alpha")', '        self.attrs.update({"model": "Hilbert CCA"})')])
M("C10", "MCA overrides transform algorithm", "xeofs/cross/mca.py", "    def covariance_fraction_CD95(self):", "    def _transform_algorithm(self, X=None, Y=None, normalized=False):\n        return super()._transform_algorithm(X, Y, normalized=not normalized)\n\n    def covariance_fraction_CD95(self):", "SPECIAL.mro")
M("C10", "whitener2 gets alpha[0]", "xeofs/cross/base_model_cross_set.py", "            alpha=alpha[1],", "            alpha=alpha[0],", "SPECIAL.alpha_wire")
M("C10", "Whitener.transform_components no identity branch", "xeofs/preprocessing/whitener.py",
  '        if self.is_identity:\n            return X\n        else:\n            dummy_dim = "dummy_dim"\n            VS = self.T.conj().T',
  '        if False:\n            return X\n        else:\n            dummy_dim = "dummy_dim"\n            VS = self.T.conj().T', "SPECIAL.identity")
M("C10", "PCA identity scales", "xeofs/preprocessing/pca.py", '            return transformed.rename({"mode": self.feature_name})\n        else:\n            return X', '            return transformed.rename({"mode": self.feature_name})\n        else:\n            return X * 1.0', "SPECIAL.identity")
M("C10", "all -> rank-1", "xeofs/preprocessing/pca.py", "                return min(X.shape)", "                return min(X.shape) - 1", "SPECIAL.all_modes")
M("C10", "re-introduce slice(None,-n)", "xeofs/single/eeof.py", "slice(None, n_samples_keep)", "slice(None, -n_samples_cut)", "SPECIAL.embed")
M("C10", "MCA accepts alpha", "xeofs/cross/mca.py", "        n_modes: int = 2,\n        standardize: Sequence[bool] | bool = False,\n        use_coslat: Sequence[bool] | bool = False,\n        check_nans: Sequence[bool] | bool = True,\n        use_pca: Sequence[bool] | bool = True,\n        n_pca_modes: Sequence[float | int | str] | float | int | str = 0.999,\n        pca_init_rank_reduction: Sequence[float] | float = 0.3,\n        compute: bool = True,\n        sample_name: str = \"sample\",\n        feature_name: Sequence[str] | str = \"feature\",\n        solver: str = \"auto\",\n        random_state: np.random.Generator | int | None = None,\n        solver_kwargs: dict = {},\n    ):\n        CPCCA.__init__(",
  "        n_modes: int = 2,\n        alpha=1.0,\n        standardize: Sequence[bool] | bool = False,\n        use_coslat: Sequence[bool] | bool = False,\n        check_nans: Sequence[bool] | bool = True,\n        use_pca: Sequence[bool] | bool = True,\n        n_pca_modes: Sequence[float | int | str] | float | int | str = 0.999,\n        pca_init_rank_reduction: Sequence[float] | float = 0.3,\n        compute: bool = True,\n        sample_name: str = \"sample\",\n        feature_name: Sequence[str] | str = \"feature\",\n        solver: str = \"auto\",\n        random_state: np.random.Generator | int | None = None,\n        solver_kwargs: dict = {},\n    ):\n        CPCCA.__init__(", "SPECIAL.alpha.param")
B("C10", "alpha as tuple", "xeofs/cross/mca.py", "alpha=[1.0, 1.0]", "alpha=(1.0, 1.0)", count=3)
B("C10", "identity via early return", "xeofs/preprocessing/whitener.py",
  "        self._sanity_check_input(X)\n        if self.is_identity:\n            return X\n        else:\n            transformed = xr.dot(X, self.T, dims=self.feature_name)\n            transformed.name = X.name\n            return transformed.rename({\"mode\": self.feature_name})",
  "        self._sanity_check_input(X)\n        if self.is_identity:\n            return X\n        transformed = xr.dot(X, self.T, dims=self.feature_name)\n        transformed.name = X.name\n        return transformed.rename({\"mode\": self.feature_name})")
B("C10", "cut with positive stop via variable", "xeofs/single/eeof.py", "        X_extended = X_extended.isel({self.sample_name: slice(None, n_samples_keep)})", "        keep = slice(None, n_samples_keep)\n        X_extended = X_extended.isel({self.sample_name: keep})")

# ---------------------------------------------------------------- C13
M("C13", "extra key in _params", EOFPY, '        self.attrs.update({"model": "EOF analysis"})', '        self.attrs.update({"model": "EOF analysis"})\n        self._params["flavour"] = "plain"', "SERIAL.closure")
M("C13", "required param not stored", "xeofs/single/eeof.py", '{"tau": tau, "embedding": embedding, "n_pca_modes": n_pca_modes}', '{"tau": tau, "n_pca_modes": n_pca_modes}', "SERIAL.closure")
M("C13", "sorted dropped from serialisation", "xeofs/single/eof_rotator.py", "            model_data=self.model_data,\n            sorted=self.sorted,\n", "            model_data=self.model_data,\n", "SERIAL.state")
M("C13", "POP pca dropped from serialisation", "xeofs/single/pop.py", "            pca=self.pca,\n            sorted=self.sorted,", "            sorted=self.sorted,", "SERIAL.state", accept_error=False)
M("C13", "whitener T not serialised", "xeofs/preprocessing/whitener.py", "            T=self.T,\n", "", "SERIAL.state")
M("C13", "writer marker renamed", "xeofs/base_model.py", 'dt.attrs[key] = "_is_tree"', 'dt.attrs[key] = "_tree"', "SERIAL.protocol")
M("C13", "transformer node marker renamed", "xeofs/preprocessing/transformer.py", '                dt.attrs[key] = "_is_node"', '                dt.attrs[key] = "_node"', "SERIAL.protocol")
M("C13", "allow_compute key renamed on writer", "xeofs/data_container/data_container.py", 'dt[key].attrs = {key: "_is_node", "allow_compute": self._allow_compute[key]}', 'dt[key].attrs = {key: "_is_node", "may_compute": self._allow_compute[key]}', "SERIAL.protocol")
M("C13", "guarded decode removed", "xeofs/utils/io.py", "    try:\n        return literal_eval(attr)\n    except (ValueError, SyntaxError):\n        return attr", "    return literal_eval(attr)", "SERIAL.codec.literal_eval")
M("C13", "attr[0] re-introduced", "xeofs/utils/io.py", '(attr.startswith("{") and attr.endswith("}"))', '(attr[0] == "{" and attr.endswith("}"))', "SERIAL.codec.subscript")
M("C13", "transformer param not stored", "xeofs/preprocessing/whitener.py", "        self.random_state = random_state\n", "        self._random_state = random_state\n", "SERIAL.getparams", accept_error=True)
B("C13", "emptiness guard then subscript", "xeofs/utils/io.py", '(attr.startswith("{") and attr.endswith("}"))', '(len(attr) > 0 and attr[0] == "{" and attr.endswith("}"))')
B("C13", "catch Exception", "xeofs/utils/io.py", "except (ValueError, SyntaxError):", "except Exception:")
B("C13", "params via item assignment", EOFPY, '        self._params.update({"padding": padding, "decay_factor": decay_factor})', '        self._params["padding"] = padding\n        self._params["decay_factor"] = decay_factor')

# ---------------------------------------------------------------- C15
M("C15", "splat solver_kwargs into SVD", "xeofs/preprocessing/pca.py", "solver_kwargs=self.solver_kwargs,", "**self.solver_kwargs,", "WIRE.splat")
M("C15", "splat via local", "xeofs/linalg/svd.py", "            solver_kwargs=self.solver_kwargs,\n        )", "            **opts,\n        )", "WIRE.splat",
  edits=[("        svd = _SVD(", "        opts = self.solver_kwargs\n        svd = _SVD("), ("            solver_kwargs=self.solver_kwargs,\n        )", "            **opts,\n        )")])
M("C15", "randomized_svd unseeded", DEC, '                "n_components": self.n_modes_precompute,\n                "random_state": self.random_state,\n', '                "n_components": self.n_modes_precompute,\n', "RNG.solver")
M("C15", "dask svd seeded with constant", SVD, '"seed": self.random_state,', '"seed": 0,', "RNG.solver")
M("C15", "exact branch ignores solver_kwargs", DEC, "U, s, VT = self._svd(X, dims, np.linalg.svd, self.solver_kwargs)", "U, s, VT = self._svd(X, dims, np.linalg.svd, {})", "WIRE.arrive")
M("C15", "global numpy rng", "xeofs/validation/bootstrapper.py", "idx_rnd = rng.choice(n_samples, n_samples, replace=True)", "idx_rnd = np.random.choice(n_samples, n_samples, replace=True)", "RNG.global")
M("C15", "default_rng unseeded", "xeofs/validation/bootstrapper.py", 'rng = np.random.default_rng(self._params["seed"])', "rng = np.random.default_rng()", "RNG.global")
M("C15", "wildcard case removed", DEC, '            case _:\n                raise ValueError(\n                    f"Unrecognized solver \'{self.solver}\'. "\n                    "Valid options are \'auto\', \'full\', and \'randomized\'."\n                )\n', "", "EXH.solver.default")
M("C15", "auto runs a solver", "xeofs/single/sparse_pca.py", '            case "full":\n                use_exact = True', '            case "full" | "exact":\n                use_exact = True', "EXH.solver.cases")
M("C15", "U not sign flipped", DEC, "            VT *= sign_multiplier\n            U *= sign_multiplier\n", "            VT *= sign_multiplier\n", "SIGN.apply")
M("C15", "sign from U", SVD, "sign_multiplier = get_deterministic_sign_multiplier(V, axis=0)", "sign_multiplier = get_deterministic_sign_multiplier(U, axis=0)", "SIGN.source")
M("C15", "sign along modes", SVD, "sign_multiplier = get_deterministic_sign_multiplier(V, axis=0)", "sign_multiplier = get_deterministic_sign_multiplier(V, axis=1)", "SIGN.axis")
M("C15", "+1 dropped in one sibling", SVD, "self.n_modes_precompute - (cum_expvar >= self.n_modes).sum() + 1", "self.n_modes_precompute - (cum_expvar >= self.n_modes).sum()", "SIB.threshold")
M("C15", "> instead of >=", DEC, "(cum_expvar >= self.n_modes).sum(self.component_dim_name)", "(cum_expvar > self.n_modes).sum(self.component_dim_name)", "SIB.threshold.cmp")
M("C15", "threshold N instead of N-1", SVD, "N = X.shape[0] - 1", "N = X.shape[0]", "SIB.threshold.norm")
M("C15", "cross PCA without seed", "xeofs/cross/base_model_cross_set.py", "            feature_name=feature_name[0],\n            random_state=random_state,\n        )", "            feature_name=feature_name[0],\n        )", "RNG.ctor")
M("C15", "kwargs sets differ", SVD, 'solver_kwargs.setdefault("n_power_iter", 4)', 'solver_kwargs.setdefault("n_power_iter", 4)\n            solver_kwargs.setdefault("n_oversamples", 10)', "SIB.kwargs")
B("C15", "solver_kwargs copied first", DEC, "            solver_kwargs = self.solver_kwargs | {\n                \"n_components\": self.n_modes_precompute,", "            user = self.solver_kwargs\n            solver_kwargs = user | {\n                \"n_components\": self.n_modes_precompute,")
B("C15", "sign multiplier renamed", DEC, "", "", edits=[("            sign_multiplier = get_deterministic", "            flip = get_deterministic"), ("VT *= sign_multiplier", "VT *= flip"), ("U *= sign_multiplier", "U *= flip")])
B("C15", "threshold with hoisted count", SVD, "            n_modes_required = (\n                self.n_modes_precompute - (cum_expvar >= self.n_modes).sum() + 1\n            )", "            n_modes_required = (\n                1 + self.n_modes_precompute - (cum_expvar >= self.n_modes).sum()\n            )")

# ---------------------------------------------------------------- C09
CP = "xeofs/cross/cpcca.py"
M("C09", "std ddof mismatch", CP, "return X / X.std(dim, ddof=1)", "return X / X.std(dim)", "NORM.pair.correlation")
M("C09", "cross-covariance /n", CP, "return X.conj().T @ Y / (n_samples_x - 1)", "return X.conj().T @ Y / n_samples_x", "NORM.pair")
M("C09", "residual /n in scf", CP, "return np.linalg.norm(dX.conj().T @ dY / (dX.shape[0] - 1)) ** 2", "return np.linalg.norm(dX.conj().T @ dY / dX.shape[0]) ** 2", "NORM.pair.cpcca")
M("C09", "drop conj in cross-covariance", CP, "return X.conj().T @ Y / (n_samples_x - 1)", "return X.T @ Y / (n_samples_x - 1)", "CONJ.herm")
M("C09", "whitener gram without conj", "xeofs/preprocessing/whitener.py", "C = X.conj().T @ X / nc", "C = X.T @ X / nc", "CONJ.herm")
M("C09", "predict kernel without conj", CP, "G = Rx.conj().T @ Ry / np.linalg.norm(Rx, axis=0) ** 2", "G = Rx.T @ Ry / np.linalg.norm(Rx, axis=0) ** 2", "CONJ.herm")
M("C09", "pearson without conj", "xeofs/utils/optional/statistics.py", "return X.conj().T @ Y / X.shape[0]", "return X.T @ Y / X.shape[0]", "CONJ.herm")
M("C09", "pearson ddof", "xeofs/utils/optional/statistics.py", "        X = X / X.std(0)\n", "        X = X / X.std(0, ddof=1)\n", "NORM.pair.pearson")
M("C09", "sample-count raise deleted", CP, "        if n_samples_x != n_samples_y:\n            err_msg = f\"Both data matrices must have the same number of samples but found {n_samples_x} in the first and {n_samples_y} in the second.\"\n            raise ValueError(err_msg)\n", "", "GUARD.samples")
M("C09", "scores2 from Q1", CP, "scores2 = xr.dot(Y, Q2, dims=feature_name[1])", "scores2 = xr.dot(Y, Q1, dims=feature_name[1])", "INDEX.dot")
M("C09", "components2 in X branch", CP, '            comps1 = self.data["components1"]\n            norm1 = self.data["norm1"]', '            comps1 = self.data["components2"]\n            norm1 = self.data["norm1"]', "INDEX.dot")
M("C09", "norm2 scales scores1", CP, "                scores1 = scores1 / norm1\n            results[\"X\"] = scores1", "                scores1 = scores1 / norm2\n            results[\"X\"] = scores1", "INDEX.norm",
  edits=[('            comps1 = self.data["components1"]\n            norm1 = self.data["norm1"]', '            comps1 = self.data["components1"]\n            norm1 = self.data["norm2"]')])
M("C09", "whitener2 on X in scf", CP, "        X1 = self.whitener1.inverse_transform_data(X1)\n        X2 = self.whitener2.inverse_transform_data(X2)\n\n        # Rename the sample dimension to avoid conflicts for\n        # different coordinates with same length\n        X1 = X1.rename({self.sample_name: sample_name_x})",
  "        X1 = self.whitener2.inverse_transform_data(X1)\n        X2 = self.whitener2.inverse_transform_data(X2)\n\n        # Rename the sample dimension to avoid conflicts for\n        # different coordinates with same length\n        X1 = X1.rename({self.sample_name: sample_name_x})", "INDEX.stage")
M("C09", "heterogeneous not crossed", CP, "        patterns1, pvals1 = pearson_correlation(\n            input_data1,\n            scores2,", "        patterns1, pvals1 = pearson_correlation(\n            input_data1,\n            scores1,", "INDEX.correlation")
M("C09", "homogeneous crossed", CP, "        hom_pat1, pvals1 = pearson_correlation(\n            input_data1,\n            scores1,", "        hom_pat1, pvals1 = pearson_correlation(\n            input_data1,\n            scores2,", "INDEX.correlation")
M("C09", "inverse without conj", CP, 'results["X"] = xr.dot(X, comps1.conj(), dims="mode")', 'results["X"] = xr.dot(X, comps1, dims="mode")', "CONJ.model.reconstruct")
M("C09", "norm without conj", CP, "norm1 = np.sqrt(xr.dot(scores1.conj(), scores1, dims=self.sample_name)).real", "norm1 = np.sqrt(xr.dot(scores1, scores1, dims=self.sample_name)).real", "CONJ.model.norm")
M("C09", "metric reconstruction without conj", CP, "            Xr = xr.dot(Rx.sel(mode=[mode]), Qx.sel(mode=[mode]).conj().T, dims=\"mode\")", "            Xr = xr.dot(Rx.sel(mode=[mode]), Qx.sel(mode=[mode]).T, dims=\"mode\")", "CONJ.model.metric")
B("C09", "hoist dof", CP, "        return X.conj().T @ Y / (n_samples_x - 1)", "        dof = n_samples_x - 1\n        return X.conj().T @ Y / dof")
B("C09", "rename comps", CP, "            comps1 = self.data[\"components1\"]\n            norm1 = self.data[\"norm1\"]\n            scores1 = xr.dot(X, comps1)", "            c1 = self.data[\"components1\"]\n            norm1 = self.data[\"norm1\"]\n            scores1 = xr.dot(X, c1)")
B("C09", "hermitian via named XH", CP, "        return X.conj().T @ Y / (n_samples_x - 1)", "        XH = X.conj().T\n        return XH @ Y / (n_samples_x - 1)")
B("C09", "guard with == and else", CP, "        if n_samples_x != n_samples_y:\n            err_msg = f\"Both data matrices must have the same number of samples but found {n_samples_x} in the first and {n_samples_y} in the second.\"\n            raise ValueError(err_msg)\n        return X.conj().T @ Y / (n_samples_x - 1)",
  "        if n_samples_x == n_samples_y:\n            return X.conj().T @ Y / (n_samples_x - 1)\n        else:\n            raise ValueError(\"Both data matrices must have the same number of samples\")")

# ---------------------------------------------------------------- C16
WH = "xeofs/preprocessing/whitener.py"
PC = "xeofs/preprocessing/pca.py"
M("C16", "Tinv->T in inverse_transform_components", WH, "VS = self.Tinv.conj().T", "VS = self.T.conj().T", "ADJOINT.maps")
M("C16", "conj dropped in transform_components", WH, "VS = self.T.conj().T", "VS = self.T.T", "ADJOINT.maps.adjoint")
M("C16", "inverse data uses T", WH, 'return xr.dot(X, self.Tinv, dims="mode")', 'return xr.dot(X, self.T, dims="mode")', "ADJOINT.maps")
M("C16", "Tinv = pinv(C)", WH, "Tinv = np.linalg.inv(T)", "Tinv = np.linalg.inv(C)", "ADJOINT.inverse")
M("C16", "kernel returns swapped", WH, "        return T, Tinv\n\n    def transform", "        return Tinv, T\n\n    def transform", "ADJOINT.inverse.order")
M("C16", "exponent sign flipped", WH, "power = (self.alpha - 1) / 2", "power = (1 - self.alpha) / 2", "ADJOINT.power")
M("C16", "exponent alpha/2", WH, "power = (self.alpha - 1) / 2", "power = self.alpha / 2", "ADJOINT.power")
M("C16", "PCA inverse components conj", PC, "            V = self.V\n            V = V.rename", "            V = self.V.conj()\n            V = V.rename", "ADJOINT.maps.adjoint")
M("C16", "PCA inverse data without conj", PC, 'return xr.dot(X, self.V.conj().T, dims="mode")', 'return xr.dot(X, self.V.T, dims="mode")', "ADJOINT.maps")
M("C16", "PCA transform contracts mode", PC, "transformed = xr.dot(X, self.V, dims=self.feature_name)", 'transformed = xr.dot(X, self.V, dims="mode")', "ADJOINT.dims")
M("C16", "rebuild without conj", "xeofs/linalg/_numpy/_utils.py", "C_scaled = V @ np.diag(s**power) @ V.conj().T", "C_scaled = V @ np.diag(s**power) @ V.T", "ADJOINT.rebuild.power")
M("C16", "rebuild wrong power", "xeofs/linalg/_numpy/_utils.py", "C_scaled = V @ np.diag(s**power) @ V.conj().T", "C_scaled = V @ np.diag(s) @ V.conj().T", "ADJOINT.rebuild.power")
M("C16", "sanity check dropped in transform", WH, "        self._sanity_check_input(X)\n        if self.is_identity:\n            return X\n        else:\n            transformed", "        if self.is_identity:\n            return X\n        else:\n            transformed", "GUARD.sanity")
M("C16", "gram X X^H", WH, "C = X.conj().T @ X / nc", "C = X @ X.conj().T / nc", "ADJOINT.rebuild.gram")
B("C16", "hoist Tinv adjoint", WH, "            VS = self.Tinv.conj().T\n", "            Tinv = self.Tinv\n            VS = Tinv.conj().T\n")
B("C16", "exponent 0.5*(alpha-1)", WH, "power = (self.alpha - 1) / 2", "power = 0.5 * (self.alpha - 1)")
B("C16", "transpose via method", WH, "VS = self.T.conj().T", "VS = self.T.conj().transpose()")

# ---------------------------------------------------------------- C11
ER = "xeofs/single/eof_rotator.py"
CR = "xeofs/cross/cpcca_rotator.py"
M("C11", "fit rotates scores with R", ER, '        RinvT = RinvT.rename({"mode_n": "mode"})\n        scores = xr.dot(scores, RinvT, dims="mode_m")', '        RinvT = rot_matrix.rename({"mode_n": "mode"})\n        scores = xr.dot(scores, RinvT, dims="mode_m")', "PAIR.scores")
M("C11", "transform rotates with R", ER, '        RinvT = self._compute_rot_mat_inv_trans(R, input_dims=("mode_m", "mode_n"))', "        RinvT = R", "PAIR.scores")
M("C11", "cross transform rotates with R", CR, '        RinvT = self._compute_rot_mat_inv_trans(\n            rot_matrix, input_dims=("mode_m", "mode_n")\n        )\n        RinvT = RinvT.rename({"mode_n": "mode"})\n\n        scaling', '        RinvT = rot_matrix\n        RinvT = RinvT.rename({"mode_n": "mode"})\n\n        scaling', "PAIR.scores")
M("C11", "helper without conj", ER, "rotation_matrix = rotation_matrix.conj().transpose(*input_dims)", "rotation_matrix = rotation_matrix.transpose(*input_dims)", "PAIR.helper")
M("C11", "helper threshold power>2", CR, '        if self._params["power"] > 1:', '        if self._params["power"] > 2:', "PAIR.helper")
M("C11", "scores excluded from sorting", ER, 'if "mode" in self.data[key].dims and key != "idx_modes_sorted":', 'if "mode" in self.data[key].dims and key != "idx_modes_sorted" and key != "scores":', "SORT.cover")
M("C11", "ascending order", ER, 'idx_modes_sorted = argsort_dask(expvar, "mode")[::-1]', 'idx_modes_sorted = argsort_dask(expvar, "mode")', "SORT.key.descending")
M("C11", "argsort of other quantity", CR, 'idx_modes_sorted = argsort_dask(squared_covariance, "mode")[::-1]', 'idx_modes_sorted = argsort_dask(norm1_rot, "mode")[::-1]', "SORT.key.quantity")
M("C11", "sorted reset dropped (rotator)", ER, "        self.feature_name = model.feature_name\n        self.sorted = False\n", "        self.feature_name = model.feature_name\n", "SORT.state.reset")
M("C11", "sorted never set", CR, "                        .assign_coords(mode=self.data[key].mode)\n                    )\n        self.sorted = True", "                        .assign_coords(mode=self.data[key].mode)\n                    )", "SORT.state.set")
M("C11", "sort loop not guarded", ER, "        if not self.sorted:\n            for key in self.data.keys():\n                if \"mode\" in self.data[key].dims and key != \"idx_modes_sorted\":\n                    self.data[key] = (\n                        self.data[key]\n                        .isel(mode=self.data[\"idx_modes_sorted\"].values)\n                        .assign_coords(mode=self.data[key].mode)\n                    )",
  "        if True:\n            for key in self.data.keys():\n                if \"mode\" in self.data[key].dims and key != \"idx_modes_sorted\":\n                    self.data[key] = (\n                        self.data[key]\n                        .isel(mode=self.data[\"idx_modes_sorted\"].values)\n                        .assign_coords(mode=self.data[key].mode)\n                    )", "SORT.state.idempotent")
M("C11", "transform always re-sorts", ER, "        if self.sorted:\n            projections = projections.isel(", "        if True:\n            projections = projections.isel(", "SORT.state.transform")
M("C11", "modes_sign not on scores", ER, "        rot_components = rot_components * modes_sign\n        scores = scores * modes_sign\n", "        rot_components = rot_components * modes_sign\n", "SIGN.group")
M("C11", "cross scores2 without sign", CR, "        scores2_rot = scores2_rot * modes_sign\n", "", "SIGN.group")
M("C11", "transform without modes_sign", ER, '        projections = projections * self.data["modes_sign"]\n', "", "SIGN.group.transform")
M("C11", "pseudo norms with n", ER, "norms = (expvar * (n_samples - 1)) ** 0.5", "norms = (expvar * n_samples) ** 0.5", "NORM.pseudo")
M("C11", "sort outside post_compute", ER, "        # Assign analysis-relevant meta data\n        self.data.set_attrs(self.attrs)\n\n        return self\n\n    def _post_compute(self):", "        # Assign analysis-relevant meta data\n        self.data.set_attrs(self.attrs)\n        self._sort_by_variance()\n\n        return self\n\n    def _post_compute(self):", "SORT.state.callers")
B("C11", "hoist helper result", ER, '        RinvT = self._compute_rot_mat_inv_trans(R, input_dims=("mode_m", "mode_n"))', '        dims_R = ("mode_m", "mode_n")\n        RinvT = self._compute_rot_mat_inv_trans(R, input_dims=dims_R)')
B("C11", "sign applied in other order", ER, "        rot_components = rot_components * modes_sign\n        scores = scores * modes_sign\n", "        scores = modes_sign * scores\n        rot_components = modes_sign * rot_components\n")
B("C11", "sorted guard via early return", ER, "        if not self.sorted:\n            for key in self.data.keys():", "        if self.sorted:\n            return\n        if True:\n            for key in self.data.keys():")

# ---------------------------------------------------------------- C18
PP = "xeofs/single/pop.py"
M("C18", "transform projects linearly", PP, "        Z = xr.apply_ufunc(\n            self._np_compute_pop_coefficients,\n            X,\n            P,", "        Z = xr.apply_ufunc(\n            lambda a, b: a @ b,\n            X,\n            P,", "COEF", accept_error=True)
M("C18", "transform without pca.transform", PP, "        P = self.pca.transform_components(P)\n        X = self.pca.transform(X)\n", "        P = self.pca.transform_components(P)\n", "COEF.shared.data_space")
M("C18", "patterns not mapped to PC space", PP, "        P = self.pca.transform_components(P)\n        X = self.pca.transform(X)\n", "        X = self.pca.transform(X)\n", "COEF.shared.pattern_space")
M("C18", "log of complex lambda", PP, "tau = -1 / np.log(abs(lbda))", "tau = -1 / np.log(lbda)", "REAL")
M("C18", "damping sign", PP, "tau = -1 / np.log(abs(lbda))", "tau = 1 / np.log(abs(lbda))", "REAL.times.damping_times")
M("C18", "period pi", PP, "T = 2 * np.pi / np.angle(lbda)", "T = np.pi / np.angle(lbda)", "REAL.times.periods")
M("C18", "periods and damping swapped in store", PP, '        self.data.add(tau, "damping_times")\n        self.data.add(T, "periods")', '        self.data.add(T, "damping_times")\n        self.data.add(tau, "periods")', "REAL.store")
M("C18", "ascending order", PP, 'idx_modes_sorted = argsort_dask(norms, "mode")[::-1]', 'idx_modes_sorted = argsort_dask(norms, "mode")', "SORT.key.descending")
M("C18", "sorted reset removed", PP, "        # A new fit yields unsorted modes\n        self.sorted = False\n", "", "SORT.state.reset")
M("C18", "sort by eigenvalue modulus", PP, 'idx_modes_sorted = argsort_dask(norms, "mode")[::-1]', 'idx_modes_sorted = argsort_dask(abs(lbda), "mode")[::-1]', "SORT.key.quantity")
M("C18", "importance is variance", PP, "norms = (var_Z) ** (0.5)", "norms = var_Z", "SORT.importance")
M("C18", "feedback without conj", PP, "A = X[1:].conj().T @ X[:-1] @ np.linalg.inv(X[:-1].conj().T @ X[:-1])", "A = X[1:].T @ X[:-1] @ np.linalg.inv(X[:-1].conj().T @ X[:-1])", "FEEDBACK.conj")
M("C18", "feedback lag-0 both", PP, "A = X[1:].conj().T @ X[:-1] @ np.linalg.inv(X[:-1].conj().T @ X[:-1])", "A = X[:-1].conj().T @ X[:-1] @ np.linalg.inv(X[:-1].conj().T @ X[:-1])", "FEEDBACK.form")
M("C18", "eigenvalues excluded from sorting", PP, 'if "mode" in self.data[key].dims and key != "idx_modes_sorted":', 'if "mode" in self.data[key].dims and key not in ("idx_modes_sorted",) and key != "eigenvalues":', "SORT.cover")
B("C18", "std directly", PP, "        var_Z = Z.var(sample_name)\n        norms = (var_Z) ** (0.5)", "        norms = Z.std(sample_name)\n        var_Z = norms**2")
B("C18", "np.abs modulus", PP, "tau = -1 / np.log(abs(lbda))", "tau = -1 / np.log(np.abs(lbda))")
B("C18", "feedback hoisted", PP, "        A = X[1:].conj().T @ X[:-1] @ np.linalg.inv(X[:-1].conj().T @ X[:-1])", "        A = X[1:].conj().T @ X[:-1] @ np.linalg.inv(X[:-1].conj().T @ X[:-1])\n        n_pc = A.shape[0]")

# ---------------------------------------------------------------- C03
SC = "xeofs/preprocessing/scaler.py"
BS = "xeofs/single/base_model_single_set.py"
BC = "xeofs/cross/base_model_cross_set.py"
M("C03", "mean added before std undone", SC, '        if params["with_std"]:\n            X = X * self.std_\n        if params["with_center"]:\n            X = X + self.mean_\n', '        if params["with_center"]:\n            X = X + self.mean_\n        if params["with_std"]:\n            X = X * self.std_\n', "MIRROR.affine.order")
M("C03", "mean not restored", SC, '        if params["with_center"]:\n            X = X + self.mean_\n', "", "MIRROR.affine.pair")
M("C03", "weights multiplied in inverse", SC, "        X = X / self.weights_\n", "        X = X * self.weights_\n", "MIRROR.affine.pair")
M("C03", "coslat undone under std flag", SC, '        if params["with_coslat"]:\n            X = X / self.coslat_weights_', '        if params["with_std"]:\n            X = X / self.coslat_weights_', "MIRROR.affine.pair")
M("C03", "center after scaling in transform", SC, '        if params["with_center"]:\n            X = X - self.mean_\n        if params["with_std"]:\n            X = X / self.std_\n', '        if params["with_std"]:\n            X = X / self.std_\n        if params["with_center"]:\n            X = X - self.mean_\n', "MIRROR.affine.order")
M("C03", "weights applied twice", SC, "        X = X * self.weights_\n        return X", "        X = X * self.weights_\n        X = X * self.weights_\n        return X", "MIRROR.affine.once")
M("C03", "cross inverse skips pca1", BC, "            X = self.whitener1.inverse_transform_data(X)\n            X = self.pca1.inverse_transform_data(X)\n            Xrec", "            X = self.whitener1.inverse_transform_data(X)\n            Xrec", "MIRROR.stages")
M("C03", "whitener2 on the X chain", BC, "            X = self.whitener1.transform(X)\n        if Y is not None:", "            X = self.whitener2.transform(X)\n        if Y is not None:", "MIRROR.stages")
M("C03", "cross components un-pca before un-whiten", BC, "        Px = self.whitener1.inverse_transform_components(Px)\n        Py = self.whitener2.inverse_transform_components(Py)\n\n        Px = self.pca1.inverse_transform_components(Px)\n        Py = self.pca2.inverse_transform_components(Py)\n\n        Px: DataObject",
  "        Px = self.pca1.inverse_transform_components(Px)\n        Py = self.pca2.inverse_transform_components(Py)\n\n        Px = self.whitener1.inverse_transform_components(Px)\n        Py = self.whitener2.inverse_transform_components(Py)\n\n        Px: DataObject", "MIRROR.stages")
M("C03", "single inverse returns without preprocessor", BS, "        return self.preprocessor.inverse_transform_data(data_reconstructed)", "        return data_reconstructed", "MIRROR.stages", accept_error=True)
M("C03", "scores multiplied when normalized", BS, "            scores = scores / self.data[\"norms\"]\n            scores.name = name", "            scores = scores * self.data[\"norms\"]\n            scores.name = name", "MIRROR.norms")
M("C03", "inverse divides by norms", BS, "            scores = scores * norms\n", "            scores = scores / norms\n", "MIRROR.norms")
M("C03", "components scaled when normalized", BS, "        if not normalized:\n            name = components.name", "        if normalized:\n            name = components.name", "MIRROR.norms")
M("C03", "cross get_scores wrong switch", "xeofs/cross/cpcca.py", "        if normalized:\n            scores1 = scores1 / norm1\n            scores2 = scores2 / norm2\n\n        return scores1, scores2", "        if not normalized:\n            scores1 = scores1 / norm1\n            scores2 = scores2 / norm2\n\n        return scores1, scores2", "MIRROR.norms")
M("C03", "whitener rescales scores", "xeofs/preprocessing/whitener.py", "original space.\"\"\"\n\n        return X\n\n    def inverse_transform_scores_unseen", "original space.\"\"\"\n\n        return X * self.n_samples\n\n    def inverse_transform_scores_unseen", "MIRROR.scores_identity")
B("C03", "commuting factors reordered in transform", SC, '        if params["with_coslat"]:\n            X = X * self.coslat_weights_\n\n        X = X * self.weights_\n        return X', '        X = X * self.weights_\n        if params["with_coslat"]:\n            X = X * self.coslat_weights_\n\n        return X')
B("C03", "rename data2D", BS, "        data2D = self.preprocessor.transform(data)\n        data2D = self._transform_algorithm(data2D)", "        stacked = self.preprocessor.transform(data)\n        data2D = self._transform_algorithm(stacked)")
B("C03", "inverse hoists params lookup", SC, '        X = X / self.weights_\n        if params["with_coslat"]:', '        w = self.weights_\n        X = X / w\n        if params["with_coslat"]:')

# ---------------------------------------------------------------- C05
M("C05", "single transform uses fitted path", BS, "        return self.preprocessor.inverse_transform_scores_unseen(data2D)", "        return self.preprocessor.inverse_transform_scores(data2D)", "UNSEEN.path")
M("C05", "cross transform uses fitted path", BC, "            X = self.preprocessor1.inverse_transform_scores_unseen(X)\n            data_list.append(X)", "            X = self.preprocessor1.inverse_transform_scores(X)\n            data_list.append(X)", "UNSEEN.path")
M("C05", "rotator transform uses fitted path", "xeofs/cross/cpcca_rotator.py", "            projections2 = self.preprocessor2.inverse_transform_scores_unseen(\n                projections2\n            )", "            projections2 = self.preprocessor2.inverse_transform_scores(projections2)", "UNSEEN.path")
M("C05", "unseen converter uses fit reference", "xeofs/preprocessing/multi_index_converter.py", '        return self._inverse_transform(X, reference="transform")', '        return self._inverse_transform(X, reference="fit")', "UNSEEN.pure")
M("C05", "sanitizer unseen reindexes", "xeofs/preprocessing/sanitizer.py", "        # Don't check sample coords for unseen data\n        return X", "        return X.reindex({self.sample_name: self.sample_coords.values})", "UNSEEN.pure")
M("C05", "preprocessor unseen loop calls fitted", "xeofs/preprocessing/preprocessor.py", "            X_it = transformer.inverse_transform_scores_unseen(X_it)", "            X_it = transformer.inverse_transform_scores(X_it)", "UNSEEN.path")
M("C05", "list transformer unseen delegates to fitted", "xeofs/preprocessing/list_processor.py", "        return self.transformers[0].inverse_transform_scores_unseen(X)", "        return self.transformers[0].inverse_transform_scores(X)", "UNSEEN.path")
M("C05", "predict labels via preprocessor2", BC, "        Y = self.preprocessor1.inverse_transform_scores_unseen(Y)\n\n        return Y", "        Y = self.preprocessor2.inverse_transform_scores_unseen(Y)\n\n        return Y", "PRECEDE")
M("C05", "scaler centres on new data", SC, "            X = X - self.mean_\n", "            X = X - X.mean(self.sample_dims)\n", "PERSAMPLE")
M("C05", "eof transform removes sample mean", EOFPY, "        projections = xr.dot(X, components, dims=feature_name)\n        projections.name = \"scores\"\n", "        projections = xr.dot(X, components, dims=feature_name)\n        projections = projections - projections.mean(self.sample_name)\n        projections.name = \"scores\"\n", "PERSAMPLE", accept_error=False)
M("C05", "whitener rescales by new std", "xeofs/preprocessing/whitener.py", "            transformed = xr.dot(X, self.T, dims=self.feature_name)\n            transformed.name = X.name", "            transformed = xr.dot(X, self.T, dims=self.feature_name)\n            transformed = transformed / X.std(self.sample_name)\n            transformed.name = X.name", "PERSAMPLE")
B("C05", "unseen path through local alias", BS, "        return self.preprocessor.inverse_transform_scores_unseen(data2D)", "        restore = self.preprocessor.inverse_transform_scores_unseen\n        return restore(data2D)", accept_error=True)
B("C05", "mask uses reduction along samples", "xeofs/preprocessing/sanitizer.py", "        X_valid_features = self._get_valid_features(X)\n        X_valid_samples", "        X_valid_features = X.notnull().any(self.sample_name)\n        X_valid_samples")

# ---------------------------------------------------------------- C06
SA = "xeofs/preprocessing/sanitizer.py"
M("C06", "isolated-NaN raise deleted", SA, "            if isolated_nans.any():\n                raise ValueError(\n                    \"Input data contains partial NaN entries, which will cause the\"\n                    \" the SVD to fail.\"\n                )\n", "", "GUARD.isolated")
M("C06", "mask comparison raise deleted", SA, "            if not np.array_equal(X_valid_features.values, self.is_valid_feature.values):\n                raise ValueError(\n                    \"Input data had NaN features in different locations than\"\n                    \" the original data.\"\n                )\n", "", "GUARD.mask")
M("C06", "mask comparison inverted", SA, "            if not np.array_equal(X_valid_features.values, self.is_valid_feature.values):", "            if np.array_equal(X_valid_features.values, self.is_valid_feature.values):", "GUARD.mask")
M("C06", "drop=True removed", SA, "X = X.where(X_valid_features & X_valid_samples, drop=True)", "X = X.where(X_valid_features & X_valid_samples)", "GUARD.drop")
M("C06", "samples not dropped", SA, "X = X.where(X_valid_features & X_valid_samples, drop=True)", "X = X.where(X_valid_features, drop=True)", "GUARD.drop")
M("C06", "isolated check ignores all-valid case", SA, "[0, X_valid_features.sum().values]", "[0]", "GUARD.isolated.predicate")
M("C06", "guards moved to dead code", SA, "        if self.check_nans:\n            (\n                self.is_valid_feature,", "        if self.check_nans and False:\n            (\n                self.is_valid_feature,", "GUARD", accept_error=True)
M("C06", "coordinate check dropped", SA, "        # Check if input has the correct coordinates\n        self._check_input_coords(X)\n", "", "GUARD.coords.dominates")
M("C06", "coordinate check never raises", SA, "        if not X.indexes[self.feature_name].equals(self.feature_coords.to_index()):\n            raise ValueError(\n                \"Cannot transform data. Feature coordinates are different.\"\n            )", "        if not X.indexes[self.feature_name].equals(self.feature_coords.to_index()):\n            pass", "GUARD.coords.raises")
M("C06", "scores not reinserted", SA, "            return X.reindex({self.sample_name: self.sample_coords.values})", "            return X", "REINSERT.reindex")
M("C06", "components reindexed to samples", SA, "    def inverse_transform_components(self, X: DataArray) -> DataArray:\n        # Reindex only if feature coordinates are different\n        coords_are_equal = X.coords[self.feature_name].identical(self.feature_coords)\n\n        if coords_are_equal:\n            return X\n        else:\n            return X.reindex({self.feature_name: self.feature_coords.values})",
  "    def inverse_transform_components(self, X: DataArray) -> DataArray:\n        # Reindex only if feature coordinates are different\n        coords_are_equal = X.coords[self.feature_name].identical(self.feature_coords)\n\n        if coords_are_equal:\n            return X\n        else:\n            return X.reindex({self.feature_name: self.sample_coords.values})", "REINSERT.reindex")
M("C06", "single scores skip preprocessor", BS, "        return self.preprocessor.inverse_transform_scores(scores)", "        return scores", "REINSERT.reach")
M("C06", "preprocessor inverse skips sanitizer", "xeofs/preprocessing/preprocessor.py", "        X_it = X.copy()\n        for transformer in self.get_transformers(inverse=True):\n            X_it = transformer.inverse_transform_components(X_it)", "        X_it = X.copy()\n        for transformer in self.get_transformers(inverse=True)[2:]:\n            X_it = transformer.inverse_transform_components(X_it)", "REINSERT.reach", accept_error=True)
B("C06", "mask comparison via != ", SA, "            if not np.array_equal(X_valid_features.values, self.is_valid_feature.values):", "            same = np.array_equal(X_valid_features.values, self.is_valid_feature.values)\n            if not same:")
B("C06", "rename masks", SA, "X_valid_features_per_sample", "n_valid_per_sample", count=4)

# ---------------------------------------------------------------- C04
CRT = "xeofs/cross/cpcca_rotator.py"
M("C04", "rotator projects on un-whitened patterns", CRT, "            X = self.preprocessor1.transform(X)\n            X = self.pca1.transform(X)\n            X = self.whitener1.transform(X)\n", "            comps1 = self.whitener1.inverse_transform_components(comps1)\n            comps1 = self.pca1.inverse_transform_components(comps1)\n            X = self.preprocessor1.transform(X)\n", "SPACE.project.kind")
M("C04", "rotator skips whitening of data", CRT, "            Y = self.pca2.transform(Y)\n            Y = self.whitener2.transform(Y)\n", "            Y = self.pca2.transform(Y)\n", "SPACE.project.basis")
M("C04", "rotator stores physical-space vectors", CRT, "        Qx_rot = self.whitener1.transform_components(Qx_rot)\n", "", "SPACE.stored")
M("C04", "rotator transform without modes_sign", ER, '        projections = projections * self.data["modes_sign"]\n', "", "AGREE.factor")
M("C04", "rotator transform without / svals", ER, "        projections = xr.dot(X, components) / svals", "        projections = xr.dot(X, components)", "AGREE.factor")
M("C04", "rotator transform multiplies svals", ER, "        projections = xr.dot(X, components) / svals", "        projections = xr.dot(X, components) * svals", "AGREE.factor")
M("C04", "cross rotator transform without norm", CRT, '            if not normalized:\n                projections1 = projections1 * self.data["norm1"]\n', "", "AGREE.factor")
M("C04", "cross rotator transform without scaling", CRT, "            projections2 = xr.dot(Y, comps2) / scaling", "            projections2 = xr.dot(Y, comps2)", "AGREE.factor")
M("C04", "accumulator rebound", "xeofs/multi/cca.py", "            view_preprocessed.append(self.preprocessors[i].transform(view))", "            view_preprocessed = self.preprocessors[i].transform(view)", "ACC")
M("C04", "accumulator rebound in list processor", "xeofs/preprocessing/list_processor.py", "            X_transformed.append(proc.transform(x))  #  type: ignore", "            X_transformed = proc.transform(x)  #  type: ignore", "ACC")
B("C04", "pseudo norms local renamed", ER, "        pseudo_norms = self.data[\"norms\"]", "        pn = self.data[\"norms\"]\n        pseudo_norms = pn")
B("C04", "scaling inlined", CRT, "            projections1 = xr.dot(X, comps1) / scaling", "            unrot = xr.dot(X, comps1)\n            projections1 = unrot / scaling")

# ---------------------------------------------------------------- C14
LP = "xeofs/preprocessing/list_processor.py"
M("C14", "transformers appended without reset", LP, "        # Start from an empty list so that refitting does not keep transformers of a previous fit\n        self.transformers = []\n", "", "HIST.grow")
M("C14", "concatenator n_features accumulates", "xeofs/preprocessing/concatenator.py", "        self.n_features = [coord.size for coord in self.coords_in.values()]", "        self.n_features += [coord.size for coord in self.coords_in.values()]", "HIST")
M("C14", "sorted reset removed from rotator", ER, "        self.feature_name = model.feature_name\n        self.sorted = False\n", "        self.feature_name = model.feature_name\n", "HIST.rbw")
M("C14", "POP sorted reset removed", PP, "        # A new fit yields unsorted modes\n        self.sorted = False\n", "", "HIST.rbw")
M("C14", "PCA overwrites n_modes", PC, "            n_modes = self._get_n_modes(X)\n\n            svd = SVD(\n                n_modes=n_modes,", "            self.n_modes = self._get_n_modes(X)\n\n            svd = SVD(\n                n_modes=self.n_modes,", "HIST.rbw")
M("C14", "rotator stores model array without copy", ER, 'self.model_data.add(model.data["norms"].copy(deep=False), "singular_values")', 'self.model_data.add(model.data["norms"], "singular_values")', "OWN.borrowed")
M("C14", "rotator renames model array", ER, "        n_samples = model.data[\"input_data\"].coords[self.sample_name].size", "        model.data[\"norms\"].name = \"singular_values\"\n        n_samples = model.data[\"input_data\"].coords[self.sample_name].size", "OWN.borrowed.mutate")
M("C14", "fit tags the user's input", BS, "        self.sample_dims = convert_to_dim_type(dim)\n\n        # Preprocess the data & transform to 2D", "        self.sample_dims = convert_to_dim_type(dim)\n        X.attrs[\"fitted\"] = True\n\n        # Preprocess the data & transform to 2D", "OWN.borrowed.mutate")
M("C14", "default solver_kwargs mutated", DEC, "        self.solver_kwargs = solver_kwargs\n", "        solver_kwargs.setdefault(\"n_iter\", 4)\n        self.solver_kwargs = solver_kwargs\n", "OWN.default")
M("C14", "shared solver_kwargs attribute mutated", DEC, "            solver_kwargs.setdefault(\"compute\", self.compute)", "            self.solver_kwargs.setdefault(\"compute\", self.compute)\n            solver_kwargs.setdefault(\"compute\", self.compute)", "OWN.default.attr")
M("C14", "bootstrapper refits the model's preprocessor", "xeofs/validation/bootstrapper.py", "        input_data = model.data[\"input_data\"]\n", "        input_data = model.data[\"input_data\"]\n        model.preprocessor.fit(input_data, (sample_name,))\n", "OWN.refit")
M("C14", "sanitizer transform overwrites fit coords", SA, "        X_valid_features = self._get_valid_features(X)\n        X_valid_samples", "        self.sample_coords = X.coords[self.sample_name]\n        X_valid_features = self._get_valid_features(X)\n        X_valid_samples", "HIST.isolate")
M("C14", "multi CCA overwrites c", "xeofs/multi/cca.py", '        self.c_ = _process_parameter("c", self.c, 0, self.n_views_)', '        self.c = _process_parameter("c", self.c, 0, self.n_views_)\n        self.c_ = self.c', "HIST.rbw")
B("C14", "reset via list()", LP, "        self.transformers = []\n", "        self.transformers = list()\n")
B("C14", "copy via shallow copy method chain", ER, 'self.model_data.add(model.data["norms"].copy(deep=False), "singular_values")', 'svals_copy = model.data["norms"].copy(deep=False)\n        self.model_data.add(svals_copy, "singular_values")')
B("C14", "pca_models appended after reset", "xeofs/multi/cca.py", "        self.pca_models = []\n", "        self.pca_models = list()\n")

# ---------------------------------------------------------------- C12
M("C12", ".values on singular values in EOF fit", EOFPY, "exp_var = singular_values**2 / (n_samples - 1)", "exp_var = singular_values.values**2 / (n_samples - 1)", "LAZY.sink")
M("C12", "float(total_variance)", EOFPY, "        total_variance = compute_total_variance(X, dim=sample_name)\n", "        total_variance = compute_total_variance(X, dim=sample_name)\n        tv_scalar = float(total_variance)\n", "LAZY.sink")
M("C12", "truth value of data in Decomposer.fit", DEC, "        U = U.assign_coords(mode=range(1, U.mode.size + 1))", "        if (s > 0).all():\n            pass\n        U = U.assign_coords(mode=range(1, U.mode.size + 1))", "LAZY.sink")
M("C12", "allow_compute=False dropped", EOFPY, 'self.data.add(X, "input_data", allow_compute=False)', 'self.data.add(X, "input_data")', "LAZY.input.flag")
M("C12", "Scaler always computes", SC, '        if self.get_params()["compute"]:\n            (self.mean_, self.std_', '        if True:\n            (self.mean_, self.std_', "LAZY.sink")
M("C12", "argsort on values", XU, "        np.argsort,\n        data.chunk({dim: -1}),", "        np.argsort,\n        data.values,", "LAZY.sink")
M("C12", "sanitizer computes masks without check_nans", SA, "        # Optionally skip NaN checks to preserve lazy computation for dask arrays\n        if self.check_nans:", "        # Optionally skip NaN checks to preserve lazy computation for dask arrays\n        if True:", "LAZY.sink")
M("C12", "rotator sorts during fit", ER, "        # Assign analysis-relevant meta data\n        self.data.set_attrs(self.attrs)\n\n        return self\n\n    def _post_compute(self):", "        # Assign analysis-relevant meta data\n        self.data.set_attrs(self.attrs)\n        self._sort_by_variance()\n\n        return self\n\n    def _post_compute(self):", "LAZY.sink")
M("C12", "rotator fit always computes", ER, '        if self._params["compute"]:\n            self.compute()', '        if True:\n            self.compute()', "LAZY.sink")
M("C12", "whitener loads data", "xeofs/preprocessing/whitener.py", "        n_samples, n_features = X.shape\n        self.n_samples = n_samples\n", "        X = X.load()\n        n_samples, n_features = X.shape\n        self.n_samples = n_samples\n", "LAZY.sink")
M("C12", "stacker compares data values", "xeofs/preprocessing/stacker.py", "        self.data_type = self._type_name(X)\n", "        self.data_type = self._type_name(X)\n        self._is_constant = bool((X == X.mean()).all())\n", "LAZY.sink")
M("C12", "DataContainer.compute ignores flag", "xeofs/data_container/data_container.py", "computed_data = {k: v for k, v in self.items() if self._allow_compute[k]}", "computed_data = {k: v for k, v in self.items()}", "LAZY.input.filter")
B("C12", "metadata access on lazy data", EOFPY, "        n_samples = X.coords[self.sample_name].size", "        n_samples = X.sizes[self.sample_name]\n        n_check = X.coords[self.sample_name].values.size")
B("C12", "guarded compute with renamed flag", SC, '        if self.get_params()["compute"]:', '        do_compute = self.get_params()["compute"]\n        if do_compute:')

# ---------------------------------------------------------------- learned from seeded defects (round 1)
M("C03", "norms not selected by the scores' modes", BS, '            norms = self.data["norms"].sel(mode=scores.mode)\n            scores = scores * norms', '            scores = scores * self.data["norms"]', "MIRROR.modesel")
M("C03", "components not selected by the scores' modes", EOFPY, 'comps = self.data["components"].sel(mode=scores.mode)', 'comps = self.data["components"]', "MIRROR.modesel")
M("C04", "transform re-sort applies inverse permutation", ER, '            projections = projections.isel(\n                mode=self.data["idx_modes_sorted"].values\n            ).assign_coords(mode=projections.mode)', '            mode_order = self.data["idx_modes_sorted"].values + 1\n            projections = projections.assign_coords(mode=mode_order).sortby("mode")', "AGREE.resort")
M("C04", "transform re-sort keeps permuted labels", ER, '            projections = projections.isel(\n                mode=self.data["idx_modes_sorted"].values\n            ).assign_coords(mode=projections.mode)', '            projections = projections.isel(\n                mode=self.data["idx_modes_sorted"].values\n            )', "AGREE.resort")
M("C05", "unseen path reindexes by label", SA, "        # Don't check sample coords for unseen data\n        return X", "        return X.reindex({self.sample_name: X.coords[self.sample_name].values})", "UNSEEN.labelfree")
M("C13", "deserialised dict attributes alias one object", "xeofs/preprocessing/transformer.py", "", "", "SERIAL.alias",
  edits=[("        # Set attributes\n        for key, attr in dt.attrs.items():", "        # Set attributes\n        data = {}\n        for key, attr in dt.attrs.items():"), ("            elif attr == \"_is_tree\":\n                data = {}\n", "            elif attr == \"_is_tree\":\n")])
M("C15", "seed forwarded only when truthy", DEC, '                "n_components": self.n_modes_precompute,\n                "random_state": self.random_state,\n            }\n', '                "n_components": self.n_modes_precompute,\n            }\n            if self.random_state:\n                solver_kwargs["random_state"] = self.random_state\n', "RNG.solver")
B("C15", "seed set by item assignment", DEC, '                "n_components": self.n_modes_precompute,\n                "random_state": self.random_state,\n            }\n', '                "n_components": self.n_modes_precompute,\n            }\n            solver_kwargs["random_state"] = self.random_state\n')

# ---------------------------------------------------------------- C17
ST = "xeofs/preprocessing/stacker.py"
PR = "xeofs/preprocessing/preprocessor.py"
M("C17", "dimension validator removed from Scaler.transform", SC, '        self._verify_input(X, "X")\n        self._verify_dims(X)\n', '        self._verify_input(X, "X")\n', "GUARD.dims")
M("C17", "dimension validator after first arithmetic", SC, '        self._verify_dims(X)\n\n        params = self.get_params()\n\n        if params["with_center"]:\n            X = X - self.mean_\n', '        params = self.get_params()\n\n        if params["with_center"]:\n            X = X - self.mean_\n        self._verify_dims(X)\n', "GUARD.dims")
M("C17", "stacker coordinate check not called", ST, "        self._validate_transform_feature_coords(X)\n\n        # Bring a Dataset", "        # Bring a Dataset", "GUARD.role.feature_coords.called")
M("C17", "stacker coordinate check never raises", ST, "        if not all(coords_are_equal):\n            raise ValueError(\n                \"Data to be transformed has different coordinates than the data used to fit.\"\n            )", "        if not all(coords_are_equal):\n            pass", "GUARD.role.feature_coords")
M("C17", "rank check removed", DEC, "        if self.n_modes_precompute > rank:\n            raise ValueError(\n                f\"n_modes must be less than or equal to the rank of the dataset (rank = {rank}).\"\n            )\n", "", "GUARD.role.rank")
M("C17", "alpha check removed", WH, "        if alpha < 0:\n            raise ValueError(\"`alpha` must be greater than or equal to 0\")\n", "", "GUARD.role.alpha")
M("C17", "item count check removed", PR, "        if len(X) != self.n_data:\n            raise ValueError(\n                f\"number of data objects passed should match number of data objects used for fitting\"\n                f\"len(data objects)={len(X)} and \"\n                f\"len(data objects used for fitting)={self.n_data}\"\n            )\n", "", "GUARD.role.item_count")
M("C17", "solver default removed", SVD, '            case _:\n                raise ValueError(\n                    f"Unrecognized solver \'{self.solver}\'. "\n                    "Valid options are \'auto\', \'full\', and \'randomized\'."\n                )\n', "", "GUARD.role.solver")
M("C17", "scaler type check after use", SC, '        self._verify_input(X, "data")\n\n        self.sample_dims = sample_dims', '        self.sample_dims = sample_dims', "GUARD.type.first_stage")
M("C17", "n_modes sanity not called in _SVD", SVD, "        sanity_check_n_modes(n_modes)\n        self.is_based_on_variance = True if isinstance(n_modes, float) else False", "        self.is_based_on_variance = True if isinstance(n_modes, float) else False", "GUARD.role.n_modes.called")
M("C17", "n_modes sanity accepts zero", "xeofs/utils/sanity_checks.py", "            if n_modes < 1:\n                raise ValueError(\"If integer, n_modes must be greater than 0\")", "            pass", "GUARD.role.n_modes.sanity")
M("C17", "cross transform accepts nothing", BC, "        if X is None and Y is None:\n            raise ValueError(\"Either X or Y must be provided.\")\n\n        if X is not None:\n            validate_input_type(X)", "        if X is not None:\n            validate_input_type(X)", "GUARD.role.x_or_y")
M("C17", "dim argument not validated", BS, "        self.sample_dims = convert_to_dim_type(dim)", "        self.sample_dims = dim", "GUARD.role.dim_type.called")
M("C17", "transform dims check not called", ST, "        self._validate_transform_dimensions(X)\n", "", "GUARD.role.transform_dims.called")
B("C17", "type validation via local alias order", BS, "        validate_input_type(X)\n        if weights is not None:\n            validate_input_type(weights)", "        if weights is not None:\n            validate_input_type(weights)\n        validate_input_type(X)")
B("C17", "rank check with >=+1", DEC, "        if self.n_modes_precompute > rank:", "        if rank < self.n_modes_precompute:")

# ---------------------------------------------------------------- C08
M("C08", "with_std fed from center", BS, "            with_std=standardize,", "            with_std=center,", "WIRE.option")
M("C08", "cross preprocessor2 gets standardize[0]", BC, "            with_std=standardize[1],", "            with_std=standardize[0],", "WIRE.option")
M("C08", "weights_Y dropped in cross fit", BC, "Y = self.preprocessor2.fit_transform(Y, self.sample_dims, weights_Y)", "Y = self.preprocessor2.fit_transform(Y, self.sample_dims)", "WIRE.weights.entry")
M("C08", "weights_X given to preprocessor2", BC, "Y = self.preprocessor2.fit_transform(Y, self.sample_dims, weights_Y)", "Y = self.preprocessor2.fit_transform(Y, self.sample_dims, weights_X)", "WIRE.weights.entry")
M("C08", "weights applied twice in transform", SC, "        X = X * self.weights_\n        return X", "        X = X * self.weights_ * self.weights_\n        return X", "WIRE.flag.once")
M("C08", "mean over feature dims", SC, "self.mean_: DataVar = X.mean(self.sample_dims)", "self.mean_: DataVar = X.mean(self.feature_dims)", "WIRE.stats")
M("C08", "std under center flag", SC, '        if params["with_std"]:\n            self.std_: DataVar', '        if params["with_center"]:\n            self.std_: DataVar', "WIRE.flag.fit")
M("C08", "coslat applied under std flag in transform", SC, '        if params["with_coslat"]:\n            X = X * self.coslat_weights_', '        if params["with_std"]:\n            X = X * self.coslat_weights_', "WIRE.flag")
M("C08", "scaler ignores user weights", SC, "            wghts: DataVarBound = weights\n", "            wghts: DataVarBound = feature_ones_like(X, self.feature_dims)\n", "WIRE.weights.store")
M("C08", "list transformer shares first weights", LP, "kwargs = {k: v[i] for k, v in self._iter_kwargs.items()}", "kwargs = {k: v[0] for k, v in self._iter_kwargs.items()}", "WIRE.weights.per_item")
M("C08", "preprocessor forgets weights key", PR, 'scaler_iterkwargs = {"weights": weights}', 'scaler_iterkwargs = {}', "WIRE.weights.iter_kwargs")
M("C08", "preprocessor fit_transform drops weights", PR, "        # to avoid duplicate computation\n        self, X = self._fit_algorithm(X, sample_dims, weights)", "        # to avoid duplicate computation\n        self, X = self._fit_algorithm(X, sample_dims)", "WIRE.weights.forward")
M("C08", "coslat without sqrt", XU, "return np.sqrt(np.cos(np.deg2rad(data)).clip(0, 1))", "return np.cos(np.deg2rad(data)).clip(0, 1)", "WIRE.stats.coslat")
M("C08", "coslat in radians", XU, "return np.sqrt(np.cos(np.deg2rad(data)).clip(0, 1))", "return np.sqrt(np.cos(data).clip(0, 1))", "WIRE.stats.coslat")
M("C08", "sanitizer check_nans from compute", PR, "Sanitizer, check_nans=self.check_nans, **dim_names_as_kwargs", "Sanitizer, check_nans=self.compute, **dim_names_as_kwargs", "WIRE.option.inner")
M("C08", "single model ignores use_coslat", BS, "            with_coslat=use_coslat,\n", "", "WIRE.option")
B("C08", "options via local dict", BS, "        self.preprocessor = Preprocessor(\n            sample_name=sample_name,\n            feature_name=feature_name,\n            with_center=center,", "        self.preprocessor = Preprocessor(\n            feature_name=feature_name,\n            sample_name=sample_name,\n            with_center=center,")
B("C08", "weights forwarded by keyword", BC, "X = self.preprocessor1.fit_transform(X, self.sample_dims, weights_X)", "X = self.preprocessor1.fit_transform(X, self.sample_dims, weights=weights_X)")
M("C14", "fit and transform bookkeeping share one dict", "xeofs/preprocessing/multi_index_converter.py", "        self.coords_from_fit = {}\n        self.coords_from_transform = {}\n", "        self.coords_from_fit = self.coords_from_transform = {}\n", "HIST.alias")
M("C14", "stacker coords_out aliases coords_in", "xeofs/preprocessing/stacker.py", "        self.coords_in = {}\n        self.coords_out = {}\n", "        self.coords_in = {}\n        self.coords_out = self.coords_in\n", "HIST.alias")

# ---------------------------------------------------------------- C02
MI = "xeofs/preprocessing/multi_index_converter.py"
CO = "xeofs/preprocessing/concatenator.py"
DR = "xeofs/preprocessing/dimension_renamer.py"
M("C02", "get_transformers not reversed", PR, "            transformers = transformers[::-1]", "            transformers = transformers", "MIRROR.chain.reverse")
M("C02", "two stages swapped in fit", PR, "        X = self.postconverter.fit_transform(X, sample_dims, feature_dims)\n        # 6 | Remove NaNs\n        X = self.sanitizer.fit_transform(X, sample_dims, feature_dims)", "        X = self.sanitizer.fit_transform(X, sample_dims, feature_dims)\n        # 6 | Remove NaNs\n        X = self.postconverter.fit_transform(X, sample_dims, feature_dims)", "MIRROR.chain.fit_order")
M("C02", "table order changed", PR, "            postconverter=MultiIndexConverter,\n            sanitizer=Sanitizer,", "            sanitizer=Sanitizer,\n            postconverter=MultiIndexConverter,", "MIRROR.chain.fit_order")
M("C02", "stage fed with stale input", PR, "        X = self.renamer.fit_transform(X, sample_dims, feature_dims)\n        sample_dims, feature_dims = extract_new_dim_names", "        X_renamed = self.renamer.fit_transform(X, sample_dims, feature_dims)\n        sample_dims, feature_dims = extract_new_dim_names", "MIRROR.chain.fed", accept_error=True)
M("C02", "variable level renamed on one side", ST, 'return X.to_unstacked_dataset(feature_name, "variable").unstack()', 'return X.to_unstacked_dataset(feature_name, "var").unstack()', "MIRROR.state.dataset.level")
M("C02", "split offsets from other attribute", CO, "        idx_range = np.cumsum([0] + self.n_features)\n        for i, coords in enumerate(self.coords_in.values()):", "        idx_range = np.cumsum([0] + [c.size for c in self.coords_in.values()][::-1])\n        for i, coords in enumerate(self.coords_in.values()):", "MIRROR.state.concat.offsets")
M("C02", "data restored from transform reference", MI, '    def inverse_transform_data(self, X: DataVarBound) -> DataVarBound:\n        return self._inverse_transform(X, reference="fit")', '    def inverse_transform_data(self, X: DataVarBound) -> DataVarBound:\n        return self._inverse_transform(X, reference="transform")', "MIRROR.state.multiindex.uses")
M("C02", "inverse preprocessor calls other inverse", PR, "            X_it = transformer.inverse_transform_components(X_it)", "            X_it = transformer.inverse_transform_data(X_it)", "MIRROR.chain.inverse")
M("C02", "unstack renames sample to feature dim", ST, "                    X = X.rename({sample_name: self.dims_mapping[sample_name][0]})", "                    X = X.rename({sample_name: self.dims_mapping[feature_name][0]})", "MIRROR.state.stack")
M("C02", "dataset data not reordered", ST, "        ds: DataSet = self._unstack_feature_to_dataset(X)\n        ds = self._reorder_dims(ds)\n        return ds", "        ds: DataSet = self._unstack_feature_to_dataset(X)\n        return ds", "MIRROR.order")
M("C02", "components dispatch uses data variant", ST, '                return self._restore_feature_order(\n                    self._unstack_to_dataset_components(X)\n                )', '                return self._restore_feature_order(\n                    self._unstack_to_dataset_data(X)\n                )', "MIRROR.state.type.dispatch")
M("C02", "renamer inverse not swapped", DR, "return X.rename({v: k for k, v in self.dim_mapping.items() if v in dims})", "return X.rename({k: v for k, v in self.dim_mapping.items() if v in dims})", "MIRROR.state.renamer.inverse")
M("C02", "converter transform loops over fit coords of other dims", MI, "        for dim in self.modified_dimensions:\n            # We need to store", "        for dim in X.dims:\n            # We need to store", "MIRROR.state.multiindex.transform")
M("C02", "concat range off by one", CO, "            new_coords = np.arange(idx_range[i], idx_range[i + 1])", "            new_coords = np.arange(idx_range[i] + 1, idx_range[i + 1] + 1)", "MIRROR.state.concat.range")
B("C02", "rename loop variable", PR, "        for transformer in self.get_transformers():\n            X_t = transformer.transform(X_t)  # type: ignore", "        for stage in self.get_transformers():\n            X_t = stage.transform(X_t)  # type: ignore")
B("C02", "explicit variable_dim", ST, "                X = X.to_stacked_array(\n                    new_dim=feature_name, sample_dims=(self.sample_name,)\n                )", "                X = X.to_stacked_array(\n                    new_dim=feature_name, sample_dims=(self.sample_name,), variable_dim=\"variable\"\n                )")

# ---------------------------------------------------------------- C20
BT = "xeofs/validation/bootstrapper.py"
M("C20", "unseeded generator", BT, 'rng = np.random.default_rng(self._params["seed"])', "rng = np.random.default_rng()", "RNG.seed")
M("C20", "without replacement", BT, "idx_rnd = rng.choice(n_samples, n_samples, replace=True)", "idx_rnd = rng.choice(n_samples, n_samples, replace=False)", "RNG.draw.replace")
M("C20", "half-size resample", BT, "idx_rnd = rng.choice(n_samples, n_samples, replace=True)", "idx_rnd = rng.choice(n_samples, n_samples // 2, replace=True)", "RNG.draw.size")
M("C20", "signs on components only", BT, "        bst_components = bst_components * signs\n        bst_scores = bst_scores * signs\n", "        bst_components = bst_components * signs\n", "SIGN.apply")
M("C20", "projects the resample", BT, "scores = bst_model.transform(input_data, normalized=False)", "scores = bst_model.transform(bst_data, normalized=False)", "RNG.member.project")
M("C20", "literal sample", BT, "(bst_anomalies * model_anomalies.conj()).mean(sample_name)", '(bst_anomalies * model_anomalies.conj()).mean("sample")', "NAMES.literal")
M("C20", "member fitted on original data", BT, "bst_model.fit(bst_data, dim=sample_name)", "bst_model.fit(input_data, dim=sample_name)", "RNG.member.fit")
M("C20", "member without model names", BT, "                sample_name=sample_name,\n                feature_name=feature_name,\n            )\n            bst_model.fit", "            )\n            bst_model.fit", "NAMES.member")
M("C20", "resample along features", BT, "bst_data = input_data.isel({sample_name: idx_rnd})", "bst_data = input_data.isel({feature_name: idx_rnd})", "RNG.resample")
M("C20", "members labelled from zero", BT, "coords_n = np.arange(1, n_bootstraps + 1)", "coords_n = np.arange(0, n_bootstraps)", "SIGN.labels")
M("C20", "sign from member scores only", BT, "        signs = np.sign(corr.real)", "        signs = np.sign(bst_scores.mean(sample_name).real)", "SIGN.source")
M("C20", "norms stored without copy", BT, 'self.data.add(name="norms", data=model.data["norms"].copy(deep=False))', 'self.data.add(name="norms", data=model.data["norms"])', "OWN.borrowed")
M("C20", "global numpy draw", BT, "idx_rnd = rng.choice(n_samples, n_samples, replace=True)", "idx_rnd = np.random.choice(n_samples, n_samples, replace=True)", "RNG.draw.generator")
B("C20", "rename rng", BT, "", "", edits=[("        rng = np.random.default_rng(", "        generator = np.random.default_rng("), ("idx_rnd = rng.choice(", "idx_rnd = generator.choice(")])
B("C20", "n_samples via sizes", BT, "n_samples = input_data.coords[sample_name].size", "n_samples = input_data[sample_name].size")

# ---------------------------------------------------------------- learned from seeded defects (round 2)
M("C02", "concat overrides the sample index", CO, "X_concat: DataArray = xr.concat(reindexed_data_list, dim=self.feature_name)", 'X_concat: DataArray = xr.concat(reindexed_data_list, dim=self.feature_name, join="override")', "MIRROR.state.concat.align")
M("C02", "unstack relabels by position", ST, "                X = X.unstack(feature_name)\n\n        else:\n            pass", "                X = X.unstack(feature_name)\n                X = X.assign_coords({dim: self.coords_in[dim] for dim in self.dims_mapping[feature_name]})\n\n        else:\n            pass", "MIRROR.state.stack.labels")
M("C07", "unstack relabels by position", ST, "                X = X.unstack(feature_name)\n\n        else:\n            pass", "                X = X.unstack(feature_name)\n                X = X.assign_coords({dim: self.coords_in[dim] for dim in self.dims_mapping[feature_name]})\n\n        else:\n            pass", "LAYOUT.positional")
M("C10", "RDA drops standardize", "xeofs/cross/rda.py", "", "", "SPECIAL.forward", edits=[("        CPCCA.__init__(\n            self,\n            n_modes=n_modes,\n            alpha=[0.0, 1.0],\n            standardize=standardize,\n", "        CPCCA.__init__(\n            self,\n            n_modes=n_modes,\n            alpha=[0.0, 1.0],\n")])
M("C10", "ComplexMCA passes use_coslat as check_nans", "xeofs/cross/mca.py", "", "", "SPECIAL.forward", edits=[("        ComplexCPCCA.__init__(\n            self,\n            n_modes=n_modes,\n            alpha=[1.0, 1.0],\n            standardize=standardize,\n            use_coslat=use_coslat,\n            check_nans=check_nans,", "        ComplexCPCCA.__init__(\n            self,\n            n_modes=n_modes,\n            alpha=[1.0, 1.0],\n            standardize=standardize,\n            use_coslat=use_coslat,\n            check_nans=use_coslat,")])
M("C12", "inner EOF with default check_nans", "xeofs/single/eeof.py", "", "", "LAZY.inner", edits=[("                compute=self._params[\"compute\"],\n                check_nans=False,\n                sample_name=self.sample_name,", "                compute=self._params[\"compute\"],\n                sample_name=self.sample_name,")])
M("C12", "OPA inner EOF always computes", "xeofs/single/opa.py", '            compute=self._params["compute"],\n            random_state=self._params["random_state"],', '            compute=True,\n            random_state=self._params["random_state"],', "LAZY.inner")
M("C06", "isolated predicate against per-sample maximum", SA, "[0, X_valid_features.sum().values]", "[0, X_valid_features_per_sample.max().values]", "GUARD.isolated.predicate")
M("C08", "clip outside sqrt", XU, "return np.sqrt(np.cos(np.deg2rad(data)).clip(0, 1))", "return np.sqrt(np.cos(np.deg2rad(data))).clip(0, 1)", "WIRE.stats.coslat")
M("C16", "pattern map without conjugate transpose", WH, "            VS = self.T.conj().T\n            VS = VS.rename({\"mode\": dummy_dim})", "            VS = self.T.rename({\"mode\": dummy_dim})", "ADJOINT.maps.adjoint")

# ---------------------------------------------------------------- learned from seeded defects (round 3) and the refactoring experiment
EEOF = "xeofs/single/eeof.py"
BMS = "xeofs/single/base_model_single_set.py"
BOOT = "xeofs/validation/bootstrapper.py"
ROT = "xeofs/single/eof_rotator.py"
SC = "xeofs/preprocessing/scaler.py"
M("C01", "inner EOF of ExtendedEOF not centring", EEOF, "            n_modes=n_modes,\n            center=True,", "            n_modes=n_modes,\n            center=False,", "WIRE.extended.center")
M("C01", "inner EOF of ExtendedEOF standardises again", EEOF, "            center=True,\n            standardize=False,\n            use_coslat=False,\n            compute=self._params[\"compute\"],\n            check_nans=False,\n            sample_name=self.sample_name,\n            feature_name=self.feature_name,\n            solver=", "            center=True,\n            standardize=True,\n            use_coslat=False,\n            compute=self._params[\"compute\"],\n            check_nans=False,\n            sample_name=self.sample_name,\n            feature_name=self.feature_name,\n            solver=", "WIRE.extended.once")
B("C01", "inner EOF keyword order / default center", EEOF, "            n_modes=n_modes,\n            center=True,\n            standardize=False,", "            standardize=False,\n            n_modes=n_modes,")
M("C03", "un-whitening with the conjugate transpose", WH, 'return xr.dot(X, self.Tinv, dims="mode")', 'return xr.dot(X, self.Tinv.conj().T, dims="mode")', "MIRROR.stage_inverse")
M("C03", "un-whitening with T", WH, 'return xr.dot(X, self.Tinv, dims="mode")', 'return xr.dot(X, self.T, dims="mode")', "MIRROR.stage_inverse")
B("C03", "un-whitening through a temporary", WH, 'return xr.dot(X, self.Tinv, dims="mode")', 'Tinv = self.Tinv\n            return xr.dot(X, Tinv, dims="mode")')
M("C05", "norms from the new data's sample count", ROT, '        pseudo_norms = self.data["norms"]\n', '        n_new = X.coords[self.preprocessor.sample_name].size\n        pseudo_norms = (self.data["explained_variance"] * (n_new - 1)) ** 0.5\n', "PERSAMPLE")
M("C05", "projections divided by len of new data", ROT, '        pseudo_norms = self.data["norms"]\n', '        pseudo_norms = self.data["norms"] * (X.shape[0] / X.shape[0] ** 0.5)\n', "PERSAMPLE")
B("C05", "feature count of the new data is harmless", ROT, '        pseudo_norms = self.data["norms"]\n', '        pseudo_norms = self.data["norms"] * (X.shape[1] / X.shape[1])\n')
M("C12", "sign flip skipped for dask", DEC, "        if self.flip_signs:\n", "        if self.flip_signs and not use_dask:\n", "EQUIV.branch")
M("C12", "extra scaling for dask only", DEC, "        if self.flip_signs:\n", "        if use_dask:\n            s = s * 1.0000001\n        if self.flip_signs:\n", "EQUIV.branch")
B("C12", "dask branch chooses between two solvers symmetrically", DEC, "        if self.flip_signs:\n", "        if use_dask:\n            note = 'dask'\n        else:\n            note = 'numpy'\n        if self.flip_signs:\n")
M("C14", "components() scales the stored array in place", BMS, "            components = components * self.data[\"norms\"]\n", "            components *= self.data[\"norms\"]\n", "HIST.query_mutates")
B("C14", "components() scales a copy", BMS, "            components = components * self.data[\"norms\"]\n", "            components = components.copy()\n            components *= self.data[\"norms\"]\n")
M("C17", "dimension check forgets the weights", SC, "fitted = (self.mean_, self.std_, self.coslat_weights_, self.weights_)", "fitted = (self.mean_, self.std_, self.coslat_weights_)", "GUARD.dims.cover")
B("C17", "dimension check through a helper", SC, "", "", edits=[("        fitted = (self.mean_, self.std_, self.coslat_weights_, self.weights_)\n", "        fitted = self._fitted()\n"), ("    def _verify_dims(self, X):", "    def _fitted(self):\n        return (self.mean_, self.std_, self.coslat_weights_, self.weights_)\n\n    def _verify_dims(self, X):")])
M("C20", "generator created once in __init__", BOOT, "", "", "RNG.seed.fresh", edits=[('        rng = np.random.default_rng(self._params["seed"])\n', "        rng = self._rng\n"), ("        self.attrs.update({\"model\": \"Bootstrapped EOF analysis\"})\n", "        self.attrs.update({\"model\": \"Bootstrapped EOF analysis\"})\n        self._rng = np.random.default_rng(seed)\n")])
B("C20", "member concatenation through a helper", BOOT, "", "", edits=[('        bst_expvar: DataArray = xr.concat(bst_expvar, dim="n")\n', '        bst_expvar: DataArray = self._cat(bst_expvar)\n'), ("    def fit(self, model: EOF):", "    @staticmethod\n    def _cat(members):\n        return xr.concat(members, dim=\"n\")\n\n    def fit(self, model: EOF):")])
# structural re-spellings that once raised false alarms
B("C11", "sort loop with continue and De Morgan", ROT, '                if "mode" in self.data[key].dims and key != "idx_modes_sorted":\n                    self.data[key] = (\n                        self.data[key]\n                        .isel(mode=self.data["idx_modes_sorted"].values)\n                        .assign_coords(mode=self.data[key].mode)\n                    )\n', '                if key == "idx_modes_sorted" or "mode" not in self.data[key].dims:\n                    continue\n                self.data[key] = (\n                    self.data[key]\n                    .isel(mode=self.data["idx_modes_sorted"].values)\n                    .assign_coords(mode=self.data[key].mode)\n                )\n')
B("C10", "identity branch as early return", "xeofs/preprocessing/pca.py", "        if self.use_pca:\n            X = X.rename({self.feature_name: \"mode\"})", "        if not self.use_pca:\n            return X\n        if True:\n            X = X.rename({self.feature_name: \"mode\"})")
B("C15", "threshold count through a named temporary", DEC, "            n_modes_required = (\n                self.n_modes_precompute\n                - (cum_expvar >= self.n_modes).sum(self.component_dim_name)\n                + 1\n            )\n", "            n_sufficient = (self.n_modes <= cum_expvar).sum(self.component_dim_name)\n            n_modes_required = self.n_modes_precompute - n_sufficient + 1\n")
B("C13", "params key removed with del", "xeofs/cross/cpcca.py", 'self._params.pop("center")', 'del self._params["center"]')
B("C05", "multi-index reference as if / elif", "xeofs/preprocessing/multi_index_converter.py", '        match reference:\n            case "fit":\n                reference_indexes = self.coords_from_fit\n            case "transform":\n                reference_indexes = self.coords_from_transform\n', '        if reference == "fit":\n            reference_indexes = self.coords_from_fit\n        elif reference == "transform":\n            reference_indexes = self.coords_from_transform\n')
B("C02", "multi-index reference as if / elif", "xeofs/preprocessing/multi_index_converter.py", '        match reference:\n            case "fit":\n                reference_indexes = self.coords_from_fit\n            case "transform":\n                reference_indexes = self.coords_from_transform\n', '        if reference == "fit":\n            reference_indexes = self.coords_from_fit\n        elif reference == "transform":\n            reference_indexes = self.coords_from_transform\n')
B("C14", "multi-index reference as if / elif", "xeofs/preprocessing/multi_index_converter.py", '        match reference:\n            case "fit":\n                reference_indexes = self.coords_from_fit\n            case "transform":\n                reference_indexes = self.coords_from_transform\n', '        if reference == "fit":\n            reference_indexes = self.coords_from_fit\n        elif reference == "transform":\n            reference_indexes = self.coords_from_transform\n')
M("C02", "multi-index unseen path restores from the fit coordinates", "xeofs/preprocessing/multi_index_converter.py", '            case "transform":\n                reference_indexes = self.coords_from_transform\n', '            case "transform":\n                reference_indexes = self.coords_from_fit\n', "MIRROR.state.multiindex.reference")

# ---------------------------------------------------------------- learned from the operator-mutation sweep and round 4
MIC = "xeofs/preprocessing/multi_index_converter.py"
IO = "xeofs/utils/io.py"
CROSSBASE = "xeofs/cross/base_model_cross_set.py"
M("C03", "transform ignores the normalized switch", BMS, '            data2D = data2D / self.data["norms"]\n            data2D.name = "scores"\n', '            data2D.name = "scores"\n', "MIRROR.norms.switch")
M("C11", "rotated variance not recomputed", ROT, "        expvar = (abs(rot_loadings) ** 2).sum(self.feature_name)\n", "", "NORM.rotated")
M("C11", "inverse of the rotation matrix not transposed", ROT, "output_core_dims=[(input_dims[::-1])]", "output_core_dims=[(input_dims)]", "PAIR.helper.transpose")
B("C11", "rotated variance via a named square", ROT, "        expvar = (abs(rot_loadings) ** 2).sum(self.feature_name)\n", "        sq = abs(rot_loadings) ** 2\n        expvar = sq.sum(self.feature_name)\n")
M("C13", "node attributes not decoded on load", IO, "                node.attrs[key] = _desanitize(attr)\n", "                pass\n", "SERIAL.codec.applied")
M("C13", "variable attributes not encoded on save", IO, "                    node[v].attrs[key] = str(attr)\n", "                    pass\n", "SERIAL.codec.applied")
M("C17", "init_rank_reduction validated for integer n_modes only", DEC, "        if self.is_based_on_variance:\n            if not (0 < init_rank_reduction <= 1.0):", "        if not self.is_based_on_variance:\n            if not (0 < init_rank_reduction <= 1.0):", "GUARD.role.init_rank_reduction.when")
M("C02", "MultiIndex not rebuilt by the inverse", MIC, "                X_inverse_transformed = X_inverse_transformed.set_index({dim: indexes})\n", "                pass\n", "MIRROR.state.multiindex.restore")
M("C02", "fit aliases the two coordinate stores", MIC, "        return self\n\n    def transform(self, X: DataVar) -> DataVar:", "        self.coords_from_transform = self.coords_from_fit\n        return self\n\n    def transform(self, X: DataVar) -> DataVar:", "MIRROR.state.multiindex.distinct")
M("C14", "fit aliases the two coordinate stores", MIC, "        return self\n\n    def transform(self, X: DataVar) -> DataVar:", "        self.coords_from_transform = self.coords_from_fit\n        return self\n\n    def transform(self, X: DataVar) -> DataVar:", "HIST.alias")
B("C14", "fit copies the coordinate store", MIC, "        return self\n\n    def transform(self, X: DataVar) -> DataVar:", "        self.coords_from_transform = dict(self.coords_from_fit)\n        return self\n\n    def transform(self, X: DataVar) -> DataVar:")
M("C09", "whitening fitted before the augmentation", CROSSBASE, "        # Augment data\n        X, Y = self._augment_data(X, Y)\n        # Whiten data\n        X = self.whitener1.fit_transform(X)\n        Y = self.whitener2.fit_transform(Y)\n", "        # Whiten data\n        X = self.whitener1.fit_transform(X)\n        Y = self.whitener2.fit_transform(Y)\n        # Augment data\n        X, Y = self._augment_data(X, Y)\n", "STAGE.fit_order")
M("C06", "list items glued by position", "xeofs/preprocessing/concatenator.py", "X_concat: DataArray = xr.concat(reindexed_data_list, dim=self.feature_name)", 'X_concat: DataArray = xr.concat(reindexed_data_list, dim=self.feature_name, join="override")', "REINSERT.concat.align")
M("C07", "list items glued by position", "xeofs/preprocessing/concatenator.py", "X_concat: DataArray = xr.concat(reindexed_data_list, dim=self.feature_name)", 'X_concat: DataArray = xr.concat(reindexed_data_list, dim=self.feature_name, join="override")', "LAYOUT.concat.align")
M("C07", "items given the first item's sample index", "xeofs/preprocessing/concatenator.py", "            reindexed_data_list.append(reindexed)\n", "            reindexed = reindexed.assign_coords({self.sample_name: X[0].coords[self.sample_name]})\n            reindexed_data_list.append(reindexed)\n", "LAYOUT.concat.align.items")
B("C07", "explicit outer join", "xeofs/preprocessing/concatenator.py", "X_concat: DataArray = xr.concat(reindexed_data_list, dim=self.feature_name)", 'X_concat: DataArray = xr.concat(reindexed_data_list, dim=self.feature_name, join="outer")')
M("C15", "wrapper defaults override the user's options", DEC, '                "seed": self.random_state,\n            }\n            solver_kwargs.setdefault("compute", self.compute)\n            solver_kwargs.setdefault("n_power_iter", 4)\n', '                "seed": self.random_state,\n                "compute": self.compute,\n                "n_power_iter": 4,\n            }\n', "WIRE.precedence")
B("C15", "wrapper defaults merged before the user's dict", DEC, '            solver_kwargs.setdefault("compute", self.compute)\n            solver_kwargs.setdefault("n_power_iter", 4)\n', '            solver_kwargs = {"compute": self.compute, "n_power_iter": 4} | solver_kwargs\n')
M("C15", "exact solver under the inverted policy flag", SVD, "        if use_exact:\n", "        if not use_exact:\n", "EXH.solver.branch")
M("C16", "Tinv labelled like T", WH, 'output_core_dims=[[self.feature_name, "mode"], ["mode", self.feature_name]]', 'output_core_dims=[[self.feature_name, "mode"], [self.feature_name, "mode"]]', "ADJOINT.inverse.labels")
M("C16", "PCA pattern inverse without renaming V", "xeofs/preprocessing/pca.py", '            V = V.rename({"mode": dummy_dim})\n            return xr.dot(V, comps_pc_space, dims=dummy_dim)', '            return xr.dot(V, comps_pc_space, dims=dummy_dim)', "ADJOINT.dims.carried")
M("C11", "varimax returns the previous iteration's product", "xeofs/linalg/_numpy/_rotation.py", "    # De-normalize\n    X = h[:, np.newaxis] * X\n\n    # Rotate\n    Xrot = X @ R\n", "    Xrot = h[:, np.newaxis] * basis\n", "KERNEL.consistent")
B("C11", "varimax final product through a temporary", "xeofs/linalg/_numpy/_rotation.py", "    # Rotate\n    Xrot = X @ R\n", "    Rfinal = R\n    Xrot = X @ Rfinal\n")
M("C10", "inner EOF of ExtendedEOF standardises again", EEOF, "            center=True,\n            standardize=False,\n            use_coslat=False,\n            compute=self._params[\"compute\"],\n            check_nans=False,\n            sample_name=self.sample_name,\n            feature_name=self.feature_name,\n            solver=", "            center=True,\n            standardize=self._params[\"standardize\"],\n            use_coslat=False,\n            compute=self._params[\"compute\"],\n            check_nans=False,\n            sample_name=self.sample_name,\n            feature_name=self.feature_name,\n            solver=", "SPECIAL.embed.inner.once")

# ---------------------------------------------------------------- round 5 and the cross-model mutation sweep
XBASE = "xeofs/cross/base_model_cross_set.py"
CP = "xeofs/cross/cpcca.py"
M("C04", "cross transform skips whitening of X", XBASE, "            X = self.pca1.transform(X)\n            X = self.whitener1.transform(X)\n        if Y is not None:", "            X = self.pca1.transform(X)\n        if Y is not None:", "SPACE.forward.complete")
M("C04", "predict skips the PCA stage", XBASE, "        X = self.preprocessor1.transform(X)\n        X = self.pca1.transform(X)\n\n        # Whiten X\n", "        X = self.preprocessor1.transform(X)\n\n        # Whiten X\n", "SPACE.forward.complete")
M("C03", "normalized switch ignored for field 1", CP, "            if normalized:\n                scores1 = scores1 / norm1\n", "", "MIRROR.norms.switch.fields")
M("C12", "container copied with the constructor", EEOF, "        self.data = model.data\n", "        self.data = DataContainer(model.data)\n", "LAZY.input.copy")
M("C13", "coslat weights keep the coordinate's name", XU, '        weights.name = "coslat_weights"\n        return weights\n', "        return weights\n", "SERIAL.named")
M("C03", "coslat weights keep the coordinate's name", XU, '        weights.name = "coslat_weights"\n        return weights\n', "        return weights\n", "MIRROR.state.named")
B("C13", "coslat weights named through rename", XU, '        weights.name = "coslat_weights"\n        return weights\n', '        return weights.rename("coslat_weights")\n')
M("C01", "components() scales the stored array in place", BMS, "            components = components * self.data[\"norms\"]\n", "            components *= self.data[\"norms\"]\n", "WIRE.query_mutates")
ROTX = "xeofs/cross/cpcca_rotator.py"
M("C04", "rotator fit skips the pca inverse for field 2", ROTX, "        Qy = self.pca2.inverse_transform_components(Qy)\n", "", "SPACE.stored.round")
M("C04", "rotator fit does not scale the scores of field 2", ROTX, "        scores1 = scores1 / scaling\n        scores2 = scores2 / scaling\n", "        scores1 = scores1 / scaling\n", "AGREE.factor.extra")
M("C04", "rotator transform re-sorts field 1 only", ROTX, "            if self.sorted:\n                projections2 = projections2.isel(\n                    mode=self.data[\"idx_modes_sorted\"].values\n                ).assign_coords(mode=projections2.mode)\n", "", "AGREE.resort.each")
M("C11", "rotator transform re-sorts field 1 only", ROTX, "            if self.sorted:\n                projections2 = projections2.isel(\n                    mode=self.data[\"idx_modes_sorted\"].values\n                ).assign_coords(mode=projections2.mode)\n", "", "SORT.state.transform.each")

# ---------------------------------------------------------------- round 6
TRF = "xeofs/preprocessing/transformer.py"
PREP = "xeofs/preprocessing/preprocessor.py"
M("C02", "MultiIndex levels recorded from the coordinates along the dimension", TRF, "multiindexes[data.name] = [n for n in data.to_index().names]", "multiindexes[data.name] = [n for n, c in data.coords.items() if n != data.name and c.dims == data.dims]", "MIRROR.state.multiindex.levels")
M("C13", "MultiIndex levels recorded from the coordinates along the dimension", TRF, "multiindexes[data.name] = [n for n in data.to_index().names]", "multiindexes[data.name] = [n for n, c in data.coords.items() if n != data.name and c.dims == data.dims]", "SERIAL.multiindex.levels")
B("C13", "MultiIndex levels through a local index", TRF, "                if isinstance(data.to_index(), pd.MultiIndex):\n                    multiindexes[data.name] = [n for n in data.to_index().names]", "                idx = data.to_index()\n                if isinstance(idx, pd.MultiIndex):\n                    multiindexes[data.name] = list(idx.names)")
M("C08", "weights put on the data's grid by position", PREP, '        weights = process_parameter("weights", weights, None, self.n_data)\n', '        weights = process_parameter("weights", weights, None, self.n_data)\n        weights = [w if w is None else w.assign_coords({d: x[d] for d in w.dims if d in x.coords}) for w, x in zip(weights, X)]\n', "WIRE.weights.untouched")
M("C04", "cross getters scale the stored arrays in place", CP, '            comps1 = comps1 * self.data["norm1"]\n            comps2 = comps2 * self.data["norm2"]\n', '            comps1 *= self.data["norm1"]\n            comps2 *= self.data["norm2"]\n', "AGREE.query_mutates")
M("C09", "cross getters scale the stored arrays in place", CP, "            scores1 = scores1 / norm1\n            scores2 = scores2 / norm2\n", "            scores1 /= norm1\n            scores2 /= norm2\n", "NORM.query_mutates")
M("C03", "cross getters scale the stored arrays in place", CP, "            scores1 = scores1 / norm1\n            scores2 = scores2 / norm2\n", "            scores1 /= norm1\n            scores2 /= norm2\n", "MIRROR.query_mutates")
M("C15", "generator created in the constructor and kept in the PCAs", XBASE, "", "", "RNG.stateful", edits=[("from numpy.random import Generator\n", "from numpy.random import Generator, default_rng\n"), ("        self.pca1 = PCA(\n", "        random_state = default_rng(random_state)\n        self.pca1 = PCA(\n")])
M("C14", "memoised conjugate transpose of the PCA basis", "xeofs/preprocessing/pca.py", "", "", "HIST.cache", edits=[("import numpy as np\n", "from functools import cached_property\n\nimport numpy as np\n"), ("    def fit(\n        self,\n        X: DataArray,\n        sample_dims: Dims | None = None,", "    @cached_property\n    def _Vh(self):\n        return self.V.conj().T\n\n    def fit(\n        self,\n        X: DataArray,\n        sample_dims: Dims | None = None,")])
M("C13", "post-compute hook moved into deserialisation", "xeofs/base_model.py", "            setattr(self, str(key), deserialized_obj)\n", "            setattr(self, str(key), deserialized_obj)\n        self._post_compute()\n", "SERIAL.pure")
M("C07", "rotated loadings mapped whitener-then-pca", ROTX, "        Qx_rot = self.pca1.transform_components(Qx_rot)\n        Qy_rot = self.pca2.transform_components(Qy_rot)\n        Qx_rot = self.whitener1.transform_components(Qx_rot)\n        Qy_rot = self.whitener2.transform_components(Qy_rot)\n", "        Qx_rot = self.whitener1.transform_components(Qx_rot)\n        Qy_rot = self.whitener2.transform_components(Qy_rot)\n        Qx_rot = self.pca1.transform_components(Qx_rot)\n        Qy_rot = self.pca2.transform_components(Qy_rot)\n", "LAYOUT.stage_order")

# ---------------------------------------------------------------- round 7
M("C17", "cross inverse selects field 2 by the labels of field 1", CP, '            comps2 = self.data["components2"].sel(mode=Y.mode)\n', '            comps2 = self.data["components2"].sel(mode=X.mode)\n', "GUARD.modes.select")
M("C17", "single inverse contracts without selecting the modes", EOFPY, '        comps = self.data["components"].sel(mode=scores.mode)\n\n        reconstructed_data = xr.dot(comps.conj(), scores, dims="mode")\n        reconstructed_data.name = "reconstructed_data"\n\n        return reconstructed_data\n\n    def components(self, normalized: bool = True)', '        comps = self.data["components"]\n\n        reconstructed_data = xr.dot(comps.conj(), scores, dims="mode")\n        reconstructed_data.name = "reconstructed_data"\n\n        return reconstructed_data\n\n    def components(self, normalized: bool = True)', "GUARD.modes.select")
B("C17", "mode labels through a local", EOFPY, '        comps = self.data["components"].sel(mode=scores.mode)\n\n        reconstructed_data = xr.dot(comps.conj(), scores, dims="mode")\n        reconstructed_data.name = "reconstructed_data"\n\n        return reconstructed_data\n\n    def components(self, normalized: bool = True)', '        wanted = scores.coords["mode"]\n        comps = self.data["components"].sel({"mode": wanted})\n\n        reconstructed_data = xr.dot(comps.conj(), scores, dims="mode")\n        reconstructed_data.name = "reconstructed_data"\n\n        return reconstructed_data\n\n    def components(self, normalized: bool = True)')
M("C20", "member model follows the model's centring", BOOT, "                n_modes=n_modes,\n                standardize=False,\n", '                n_modes=n_modes,\n                center=model_params["center"],\n                standardize=False,\n', "MEMBER.config")
M("C20", "member model standardises the resample", BOOT, "                n_modes=n_modes,\n                standardize=False,\n", "                n_modes=n_modes,\n                standardize=True,\n", "MEMBER.config")
B("C20", "member model centres explicitly", BOOT, "                n_modes=n_modes,\n                standardize=False,\n", "                n_modes=n_modes,\n                center=True,\n                standardize=False,\n")
M("C04", "transform rotates with R", ER, '        RinvT = self._compute_rot_mat_inv_trans(R, input_dims=("mode_m", "mode_n"))', "        RinvT = R", "AGREE.rotation")
M("C04", "cross transform rotates with R", CR, '        RinvT = self._compute_rot_mat_inv_trans(\n            rot_matrix, input_dims=("mode_m", "mode_n")\n        )\n        RinvT = RinvT.rename({"mode_n": "mode"})\n\n        scaling', '        RinvT = rot_matrix\n        RinvT = RinvT.rename({"mode_n": "mode"})\n\n        scaling', "AGREE.rotation")
M("C03", "whitening inverse labelled like the forward matrix", WH, 'output_core_dims=[[self.feature_name, "mode"], ["mode", self.feature_name]],', 'output_core_dims=[[self.feature_name, "mode"], [self.feature_name, "mode"]],', "MIRROR.whitener.labels")
M("C10", "sample cut uses the whole window length", EEOF, "        n_samples_cut = (embedding - 1) * tau\n        n_samples_keep = X.coords[self.sample_name].size - n_samples_cut\n", "        window = embedding * tau\n        n_samples_keep = X.coords[self.sample_name].size - window + 1\n", "SPECIAL.embed.keep")
M("C01", "sample cut keeps one incomplete window", EEOF, "        n_samples_cut = (embedding - 1) * tau\n", "        n_samples_cut = (embedding - 1) * tau - 1\n", "WIRE.extended.window")
B("C10", "sample cut spelt as N - e*t + t", EEOF, "        n_samples_cut = (embedding - 1) * tau\n        n_samples_keep = X.coords[self.sample_name].size - n_samples_cut\n", "        n_all = X.coords[self.sample_name].size\n        n_samples_keep = n_all - embedding * tau + tau\n")
B("C01", "sample cut spelt as N - e*t + t", EEOF, "        n_samples_cut = (embedding - 1) * tau\n        n_samples_keep = X.coords[self.sample_name].size - n_samples_cut\n", "        n_all = X.coords[self.sample_name].size\n        n_samples_keep = n_all - embedding * tau + tau\n")
M("C07", "list elements split in sorted key order", CO, "        for i, coords in enumerate(self.coords_in.values()):\n", "        for i, key in enumerate(sorted(self.coords_in)):\n            coords = self.coords_in[key]\n", "LAYOUT.index_keys")
M("C02", "list elements split in sorted key order", CO, "        for i, coords in enumerate(self.coords_in.values()):\n", "        for i, key in enumerate(sorted(self.coords_in)):\n            coords = self.coords_in[key]\n", "MIRROR.state.concat.index_keys")
B("C07", "list elements split in numeric key order", CO, "        for i, coords in enumerate(self.coords_in.values()):\n", "        for i, key in enumerate(sorted(self.coords_in, key=int)):\n            coords = self.coords_in[key]\n")
M("C13", "list transformers rebuilt in sorted key order", PREP, "                for transformer in dt[name].transformers.values():\n                    deserialized = preprocessor.transformer_types()[name].deserialize(\n                        transformer\n                    )\n", "                dt_list = dt[name].transformers\n                for key in sorted(dt_list.keys()):\n                    deserialized = preprocessor.transformer_types()[name].deserialize(\n                        dt_list[key]\n                    )\n", "SERIAL.index_keys")
M("C02", "transform stacks in the order of the incoming dimensions", ST, "        feature_dims = self.dims_mapping[self.feature_name]\n        da: DataArray = self._stack(", "        feature_dims = tuple(dim for dim in X.dims if dim not in sample_dims)\n        da: DataArray = self._stack(", "MIRROR.state.stack.transform_dims")
B("C02", "transform reads the recorded dims through one local", ST, "        sample_dims = self.dims_mapping[self.sample_name]\n        feature_dims = self.dims_mapping[self.feature_name]\n        da: DataArray = self._stack(", "        recorded = self.dims_mapping\n        sample_dims = recorded[self.sample_name]\n        feature_dims = recorded[self.feature_name]\n        da: DataArray = self._stack(")
M("C08", "coslat weights cast to the dtype of the data", XU, "        weights = sqrt_cos_lat_weights(latitudes)\n", "        weights = sqrt_cos_lat_weights(latitudes).astype(data.dtype)\n", "WIRE.stats.coslat.carried")
M("C08", "coslat weights rounded when stored", SC, "            self.coslat_weights_: DataVar = compute_sqrt_cos_lat_weights(\n                data=X, feature_dims=self.feature_dims\n            )", "            self.coslat_weights_: DataVar = compute_sqrt_cos_lat_weights(\n                data=X, feature_dims=self.feature_dims\n            ).round(3)", "WIRE.stats.coslat.carried")
B("C08", "coslat weights named through rename", XU, '        weights.name = "coslat_weights"\n        return weights\n', '        return weights.rename("coslat_weights")\n')
M("C15", "dask seed falls back on solver_kwargs when falsy", DEC, '                "seed": self.random_state,\n            }\n            solver_kwargs.setdefault("compute", self.compute)', '                "seed": self.random_state or self.solver_kwargs.get("seed"),\n            }\n            solver_kwargs.setdefault("compute", self.compute)', "RNG.seed.truthiness")
M("C15", "seed passed only when truthy", SVD, '                "seed": self.random_state,\n            }\n            solver_kwargs.setdefault("compute", False)', '                "seed": self.random_state if self.random_state else None,\n            }\n            solver_kwargs.setdefault("compute", False)', "RNG.seed.truthiness")
B("C15", "seed tested against None", DEC, '                "seed": self.random_state,\n            }\n            solver_kwargs.setdefault("compute", self.compute)', '                "seed": self.random_state if self.random_state is not None else None,\n            }\n            solver_kwargs.setdefault("compute", self.compute)')
M("C12", "rotator reads the compute switch from the metadata dict", ER, '            compute=self._params["compute"],\n            **promax_kwargs,', '            compute=self.attrs["compute"],\n            **promax_kwargs,', "LAZY.flag.attrs")
M("C14", "rotator reads the compute switch from the metadata dict", ER, '            compute=self._params["compute"],\n            **promax_kwargs,', '            compute=self.attrs["compute"],\n            **promax_kwargs,', "HIST.attrs.read")
B("C14", "rotator reads a number from the metadata dict", ER, '        rtol = self._params.get("rtol")\n', '        rtol = self.attrs["rtol"]\n')
M("C06", "rotator counts the samples the sanitizer saw", ER, '        n_samples = model.data["input_data"].coords[self.sample_name].size\n', "        n_samples = self.preprocessor.sanitizer.transformers[0].sample_coords.size\n", "REINSERT.count")
M("C06", "fitted mean is NaN at entirely missing features", SC, "            self.mean_: DataVar = X.mean(self.sample_dims).fillna(0)\n", "            self.mean_: DataVar = X.mean(self.sample_dims)\n", "GUARD.features.unmasked")
B("C06", "fitted mean filled through where", SC, "            self.mean_: DataVar = X.mean(self.sample_dims).fillna(0)\n", "            m = X.mean(self.sample_dims)\n            self.mean_: DataVar = m.where(m.notnull(), 0)\n")

# ---------------------------------------------------------------- round 9
M("C02", "feature coordinates compared as sets", ST, "            X.indexes[dim].equals(self.coords_in[dim].to_index())\n            for dim in feature_dims\n", "            X.indexes[dim].symmetric_difference(self.coords_in[dim].to_index()).empty\n            for dim in feature_dims\n", "MIRROR.state.stack.transform_coords")
M("C17", "feature coordinates compared as sets", ST, "            X.indexes[dim].equals(self.coords_in[dim].to_index())\n            for dim in feature_dims\n", "            X.indexes[dim].symmetric_difference(self.coords_in[dim].to_index()).empty\n            for dim in feature_dims\n", "GUARD.role.feature_coords.ordered")
B("C17", "feature coordinates compared with identical", ST, "            X.indexes[dim].equals(self.coords_in[dim].to_index())\n            for dim in feature_dims\n", "            X.indexes[dim].identical(self.coords_in[dim].to_index())\n            for dim in feature_dims\n")
M("C07", "transform stacks in the order of the incoming dimensions", ST, "        feature_dims = self.dims_mapping[self.feature_name]\n        da: DataArray = self._stack(", "        feature_dims = tuple(dim for dim in X.dims if dim not in sample_dims)\n        da: DataArray = self._stack(", "LAYOUT.stack.transform_dims")
M("C03", "Hilbert cross model takes the real part before un-whitening", CP, '    def _augment_data(self, X: DataArray, Y: DataArray) -> tuple[DataArray, DataArray]:\n        """Augment the data with the Hilbert transform."""', '    def _inverse_transform_algorithm(self, X=None, Y=None):\n        results = super()._inverse_transform_algorithm(X, Y)\n        return {key: rec.real for key, rec in results.items()}\n\n    def _augment_data(self, X: DataArray, Y: DataArray) -> tuple[DataArray, DataArray]:\n        """Augment the data with the Hilbert transform."""', "MIRROR.real.last")
M("C08", "std floor relative to the largest std", SC, "            self.std_: DataVar = (\n                X.std(self.sample_dims).clip(min=np.finfo(np.float32).eps).fillna(1)\n            )\n", "            std: DataVar = X.std(self.sample_dims)\n            floor = np.finfo(np.float32).eps * std.max().clip(min=1.0)\n            self.std_: DataVar = std.clip(min=floor).fillna(1)\n", "WIRE.stats.bound")
B("C08", "std floor through a named constant", SC, "            self.std_: DataVar = (\n                X.std(self.sample_dims).clip(min=np.finfo(np.float32).eps).fillna(1)\n            )\n", "            floor = np.finfo(np.float32).eps\n            self.std_: DataVar = X.std(self.sample_dims).clip(min=floor).fillna(1)\n")
M("C09", "whitener covariance through np.cov", WH, "        nc = X.shape[0]\n        C = X.conj().T @ X / nc\n", "        C = np.atleast_2d(np.cov(X, rowvar=False, ddof=0))\n", "WHITEN.rebuild.gram")
M("C02", "dataset unstack renames the sample dimension unconditionally", ST, "        if has_only_one_sample_dim and sample_name in X.dims:\n            X = X.rename({sample_name: self.dims_mapping[sample_name][0]})\n\n        elif", "        if has_only_one_sample_dim:\n            X = X.rename({sample_name: self.dims_mapping[sample_name][0]})\n\n        elif", "MIRROR.state.stack.guarded")
M("C03", "dataset unstack renames the sample dimension unconditionally", ST, "        if has_only_one_sample_dim and sample_name in X.dims:\n            X = X.rename({sample_name: self.dims_mapping[sample_name][0]})\n\n        elif", "        if has_only_one_sample_dim:\n            X = X.rename({sample_name: self.dims_mapping[sample_name][0]})\n\n        elif", "MIRROR.unstack.guarded")
B("C02", "dataset unstack guard operands swapped", ST, "        if has_only_one_sample_dim and sample_name in X.dims:\n            X = X.rename({sample_name: self.dims_mapping[sample_name][0]})\n\n        elif", "        if sample_name in X.dims and has_only_one_sample_dim:\n            X = X.rename({sample_name: self.dims_mapping[sample_name][0]})\n\n        elif")
M("C07", "transform stacks a Dataset as it comes", ST, "        if self.vars_in:\n            X = X[list(self.vars_in)]\n            X = X.assign(\n                {name: X[name].transpose(*dims) for name, dims in self.vars_in.items()}\n            )\n", "", "LAYOUT.stack.dataset_layout")
M("C02", "transform stacks a Dataset as it comes", ST, "        if self.vars_in:\n            X = X[list(self.vars_in)]\n            X = X.assign(\n                {name: X[name].transpose(*dims) for name, dims in self.vars_in.items()}\n            )\n", "", "MIRROR.state.stack.dataset_layout")
M("C13", "dims of the fitted data stored raw", ST, "        self.dims_in = tuple(X.dims)\n", "        self.dims_in = X.dims\n", "SERIAL.plain")
B("C13", "dims of the fitted data stored as a list", ST, "        self.dims_in = tuple(X.dims)\n", "        self.dims_in = list(X.dims)\n")
M("C16", "pattern un-whitening delegated to the data map", WH, '            comps_pc_space = X.rename({self.feature_name: dummy_dim})\n            VS = self.Tinv.conj().T\n            VS = VS.rename({"mode": dummy_dim})\n            return xr.dot(VS, comps_pc_space, dims=dummy_dim)\n', '            comps = self.inverse_transform_data(X.rename({"mode": dummy_dim}))\n            comps = comps.rename({dummy_dim: "mode"})\n            return comps.transpose(self.feature_name, "mode")\n', "ADJOINT.maps.adjoint")
B("C16", "pattern un-whitening delegated to the data map with conjugation", WH, '            comps_pc_space = X.rename({self.feature_name: dummy_dim})\n            VS = self.Tinv.conj().T\n            VS = VS.rename({"mode": dummy_dim})\n            return xr.dot(VS, comps_pc_space, dims=dummy_dim)\n', '            comps = self.inverse_transform_data(X.conj().rename({"mode": dummy_dim})).conj()\n            comps = comps.rename({dummy_dim: "mode"})\n            return comps.transpose(self.feature_name, "mode")\n')
M("C11", "sign folded into the rotation matrix before the re-sort", CR, '        RinvT = RinvT.rename({"mode_n": "mode"})\n\n        scaling', '        RinvT = RinvT.rename({"mode_n": "mode"})\n        RinvT = RinvT * self.data["modes_sign"]\n\n        scaling', "SIGN.group.transform")
M("C20", "member model inherits the model's settings through a ** dictionary", BOOT, "                n_modes=n_modes,\n                standardize=False,\n", '                n_modes=n_modes,\n                **{key: model_params[key] for key in ("center", "solver")},\n                standardize=False,\n', "MEMBER.config")
B("C20", "member model inherits the solver through a ** dictionary", BOOT, "                n_modes=n_modes,\n                standardize=False,\n", '                n_modes=n_modes,\n                **{key: model_params[key] for key in ("solver", "random_state")},\n                standardize=False,\n')
M("C11", "rotated loadings of field 2 are not normalised", CR, "        Qx_rot = Qx_rot / norm1_rot\n        Qy_rot = Qy_rot / norm2_rot\n", "        Qx_rot = Qx_rot / norm1_rot\n", "PAIR.fields.symmetric")
M("C09", "homogeneous patterns of field 2 from whitened data", CP, "        input_data1 = self.whitener1.inverse_transform_data(input_data1)\n        input_data2 = self.whitener2.inverse_transform_data(input_data2)\n\n        input_data1 = self.pca1.inverse_transform_data(input_data1)\n        input_data2 = self.pca2.inverse_transform_data(input_data2)\n\n        scores1 = self.data[\"scores1\"]\n        scores2 = self.data[\"scores2\"]\n\n        hom_pat1", "        input_data1 = self.whitener1.inverse_transform_data(input_data1)\n\n        input_data1 = self.pca1.inverse_transform_data(input_data1)\n        input_data2 = self.pca2.inverse_transform_data(input_data2)\n\n        scores1 = self.data[\"scores1\"]\n        scores2 = self.data[\"scores2\"]\n\n        hom_pat1", "FIELD.symmetric")
B("C09", "homogeneous patterns through per-field temporaries", CP, "        input_data1 = self.whitener1.inverse_transform_data(input_data1)\n        input_data2 = self.whitener2.inverse_transform_data(input_data2)\n\n        input_data1 = self.pca1.inverse_transform_data(input_data1)\n        input_data2 = self.pca2.inverse_transform_data(input_data2)\n\n        scores1 = self.data[\"scores1\"]\n        scores2 = self.data[\"scores2\"]\n\n        hom_pat1", "        left = self.whitener1.inverse_transform_data(input_data1)\n        input_data1 = self.pca1.inverse_transform_data(left)\n        input_data2 = self.pca2.inverse_transform_data(self.whitener2.inverse_transform_data(input_data2))\n\n        scores1 = self.data[\"scores1\"]\n        scores2 = self.data[\"scores2\"]\n\n        hom_pat1")
M("C05", "recorded sample index re-attached whole", MI, "                if original_index.sizes[dim] != X_inverse_transformed.sizes[dim]:\n                    positions = X_inverse_transformed.coords[dim].values\n                    original_index = original_index.isel({dim: positions})\n", "", "UNSEEN.dropped")
M("C07", "internal dimension names numbered by layout position", DR, "enumerate(ordered_dims, start=self.start)", "enumerate(X.dims, start=self.start)", "LAYOUT.renamer.by_role")
M("C02", "internal dimension names numbered by layout position", DR, "enumerate(ordered_dims, start=self.start)", "enumerate(X.dims, start=self.start)", "MIRROR.state.renamer.by_role")
B("C07", "internal dimension names numbered from a list concatenation", DR, "        ordered_dims = tuple(sample_dims) + tuple(\n            dim for dim in X.dims if dim not in sample_dims\n        )\n", "        ordered_dims = list(sample_dims) + [dim for dim in X.dims if dim not in sample_dims]\n")

# ---------------------------------------------------------------- defects found by the hunter agents (reverts of the fixes)
UT = "xeofs/linalg/_numpy/_utils.py"
HT = "xeofs/utils/hilbert_transform.py"
MCC = "xeofs/multi/cca.py"
M("C08", "absolute cut-off in the fractional matrix power", UT, "    is_above_zero = s > np.finfo(s.dtype).eps * s.max()\n", "    is_above_zero = s > np.finfo(s.dtype).eps\n", "SCALE.cutoff.relative")
M("C03", "absolute cut-off in the fractional matrix power", UT, "    is_above_zero = s > np.finfo(s.dtype).eps * s.max()\n", "    is_above_zero = s > np.finfo(s.dtype).eps\n", "MIRROR.cutoff.relative")
B("C08", "relative cut-off through a local", UT, "    is_above_zero = s > np.finfo(s.dtype).eps * s.max()\n", "    tol = np.finfo(s.dtype).eps * s.max()\n    is_above_zero = s > tol\n")
M("C03", "Hilbert transform removes the mean of the whole signal", HT, "    y = y - 1j * y.imag.mean(axis=0)  # type: ignore\n", "    y = y - y.mean(axis=0)  # type: ignore\n", "MIRROR.affine.augment")
M("C17", "MultiIndex of a feature dimension not compared with the fitted one", MI, "            if dim in self.modified_feature_dimensions:\n                if not index.equals(self.coords_from_fit[dim].to_index()):\n                    raise ValueError(\n                        \"Cannot transform data. Feature coordinates are different.\"\n                    )\n", "", "GUARD.role.feature_coords.multiindex")
M("C06", "list items concatenated without comparing their samples", CO, "            if other.size != samples.size or not other.isin(samples).all():\n                raise ValueError(\n                    \"Invalid input. The DataArrays do not share the same samples; \"\n                    \"samples that are missing in some of them only cannot be handled.\"\n                )\n", "            pass\n", "GUARD.isolated.items")
M("C14", "rotator keeps a reference to the model's preprocessor", ER, "        self.preprocessor = deepcopy(model.preprocessor)\n", "        self.preprocessor = model.preprocessor\n", "OWN.borrowed.stage")
B("C14", "rotator copies the model's preprocessor with copy.deepcopy", ER, "        self.preprocessor = deepcopy(model.preprocessor)\n", "        import copy\n        self.preprocessor = copy.deepcopy(model.preprocessor)\n")
M("C13", "user weights stored under the name they arrive with", SC, "            if isinstance(wghts, xr.DataArray):\n                wghts = wghts.rename(\"weights_\")\n", "", "SERIAL.named")
M("C17", "n_modes not validated in the single-set base constructor", BS, "        sanity_check_n_modes(n_modes)\n\n        self.n_modes = n_modes", "        self.n_modes = n_modes", "GUARD.role.n_modes.ctor")
M("C17", "multi-set CCA transform accepts any number of views", MCC, "        if len(views) != self.n_views_:\n            raise ValueError(\n                f\"Invalid input. Number of views ({len(views)}) does not match the number of fitted views ({self.n_views_}).\"\n            )\n\n", "", "GUARD.role.item_count")
M("C17", "feature coordinates compared as whole coordinate arrays", ST, "            X.indexes[dim].equals(self.coords_in[dim].to_index())\n            for dim in feature_dims\n", "            X.coords[dim].equals(self.coords_in[dim]) for dim in feature_dims\n", "GUARD.role.feature_coords.ordered.labels")
M("C03", "reconstruction keeps the sorted coordinate order", ST, "                return self._restore_feature_order(self._unstack_to_dataarray(X))\n            case \"Dataset\":\n                return self._restore_feature_order(self._unstack_to_dataset_data(X))\n", "                return self._unstack_to_dataarray(X)\n            case \"Dataset\":\n                return self._unstack_to_dataset_data(X)\n", "MIRROR.unstack.order")
M("C14", "serialisation names the live array in place", TRF, "                if data.name is None:\n                    data = data.rename(key)\n", "                if data.name is None:\n                    data.name = key\n", "HIST.serialize_mutates")
M("C02", "Dataset components rebuilt with a blanket unstack", ST, "        ds: DataSet = self._unstack_feature_to_dataset(data)\n", "        ds: DataSet = data.to_unstacked_dataset(self.feature_name, \"variable\").unstack()\n", "MIRROR.state.dataset.unstack_scope")
M("C03", "Dataset reconstruction rebuilt with a blanket unstack", ST, "        ds: DataSet = self._unstack_feature_to_dataset(X)\n", "        ds: DataSet = X.to_unstacked_dataset(feature_name, \"variable\").unstack()\n", "MIRROR.unstack.dataset.unstack_scope")

# ---------------------------------------------------------------- session 4: attribute codec is a bijection (fix in /repo: escape look-alike strings)
M("C13", "look-alike strings no longer escaped (node level)", IO, "            elif _should_desanitize(attr):\n                # a string that only looks like an encoded value: quote it so that it is read back as it is\n                node.attrs[key] = repr(attr)\n", "", "SERIAL.codec.injective")
M("C13", "look-alike strings no longer escaped (variable level)", IO, "                elif _should_desanitize(attr):\n                    node[v].attrs[key] = repr(attr)\n", "", "SERIAL.codec.injective")
B("C13", "escape branch spelt with a negated guard", IO, "                elif _should_desanitize(attr):\n                    node[v].attrs[key] = repr(attr)\n", "                elif not _should_desanitize(attr):\n                    pass\n                else:\n                    node[v].attrs[key] = repr(attr)\n")

# ---------------------------------------------------------------- session 4: the bootstrap alignment sign is the sign of a Pearson correlation
M("C20", "alignment sign from the raw product mean", BOOT, "(bst_anomalies * model_anomalies.conj()).mean(sample_name)", "(bst_scores * model_scores.conj()).mean(sample_name)", "SIGN.source.centred")
M("C20", "alignment product not Hermitian", BOOT, "(bst_anomalies * model_anomalies.conj()).mean(sample_name)", "(bst_anomalies * model_anomalies).mean(sample_name)", "SIGN.source.herm")
M("C20", "np.sign of the complex correlation", BOOT, "signs = np.sign(corr.real)", "signs = np.sign(corr)", "SIGN.source.herm")
B("C20", "only the member scores centred", BOOT, "(bst_anomalies * model_anomalies.conj()).mean(sample_name)", "(bst_anomalies * model_scores.conj()).mean(sample_name)")
B("C20", "real part taken with np.real", BOOT, "signs = np.sign(corr.real)", "signs = np.sign(np.real(corr))")

# ---------------------------------------------------------------- round 10: lagged statistics pair rows by position - the series keeps the caller's order
POPF = "xeofs/single/pop.py"
EEOF_ = "xeofs/single/eeof.py"
M("C18", "series sorted by its labels before the lag-1 products", POPF, "        # Transform in PC space\n        X = self.pca.fit_transform(X)\n", "        X = X.sortby(sample_name)\n        # Transform in PC space\n        X = self.pca.fit_transform(X)\n", "FEEDBACK.order")
M("C18", "duplicate labels dropped before the lag-1 products", POPF, "        # Transform in PC space\n        X = self.pca.fit_transform(X)\n", "        X = X.drop_duplicates(sample_name)\n        # Transform in PC space\n        X = self.pca.fit_transform(X)\n", "FEEDBACK.order")
B("C18", "series transposed before the lag-1 products", POPF, "        # Transform in PC space\n        X = self.pca.fit_transform(X)\n", "        X = X.transpose(sample_name, feature_name)\n        # Transform in PC space\n        X = self.pca.fit_transform(X)\n")
M("C01", "series sorted by its labels before the delay embedding", EEOF_, "        # Construct the time-delayed version of the original time series\n", "        X = X.sortby(self.sample_name)\n        # Construct the time-delayed version of the original time series\n", "WIRE.extended.order")

# ---------------------------------------------------------------- round 10: variance threshold counted with a tolerance
M("C15", "threshold reached within np.isclose (Decomposer)", "xeofs/linalg/decomposer.py", "(cum_expvar >= self.n_modes).sum(self.component_dim_name)", "((cum_expvar >= self.n_modes) | np.isclose(cum_expvar, self.n_modes)).sum(self.component_dim_name)", "SIB.threshold.exact")
M("C15", "threshold reached within np.isclose (_SVD)", "xeofs/linalg/_numpy/_svd.py", "(cum_expvar >= self.n_modes).sum()", "((cum_expvar >= self.n_modes) | np.isclose(cum_expvar, self.n_modes)).sum()", "SIB.threshold.exact")
B("C15", "threshold mask through a named local", "xeofs/linalg/_numpy/_svd.py", "            n_modes_required = (\n                self.n_modes_precompute - (cum_expvar >= self.n_modes).sum() + 1\n            )\n", "            is_reached = cum_expvar >= self.n_modes\n            n_modes_required = self.n_modes_precompute - is_reached.sum() + 1\n")

# ---------------------------------------------------------------- round 10: rules for the changes no check reported
MICF = "xeofs/preprocessing/multi_index_converter.py"
XU = "xeofs/utils/xarray_utils.py"
EOFF = "xeofs/single/eof.py"
BMSS = "xeofs/single/base_model_single_set.py"
EROT = "xeofs/single/eof_rotator.py"
M("C02", "MultiIndex rebuilt from the coordinates lying along the dimension", MICF, "indexes = [idx for idx in original_index.indexes.keys() if idx != dim]", "indexes = [name for name, coord in original_index.coords.items() if name != dim and coord.dims == (dim,)]", "MIRROR.state.multiindex.restore.levels")
B("C02", "MultiIndex rebuilt from the names of the remembered index", MICF, "indexes = [idx for idx in original_index.indexes.keys() if idx != dim]", "indexes = [idx for idx in original_index.to_index().names if idx != dim]")
M("C07", "sample dimensions reported in the data's own order", XU, "        sample_dims = convert_to_dim_type(sample_dims)\n        feature_dims: DimsList = [", "        sample_dims = convert_to_dim_type(sample_dims)\n        sample_dims = tuple(d for d in data[0].dims if d in sample_dims)\n        feature_dims: DimsList = [", "LAYOUT.dims.user_order")
M("C01", "total variance floored inside the ratio accessor", EOFF, 'exp_var_ratio = self.data["explained_variance"] / self.data["total_variance"]', 'exp_var_ratio = self.data["explained_variance"] / self.data["total_variance"].clip(min=np.finfo(float).eps)', "NORM.ratio")
B("C01", "ratio through named locals", EOFF, 'exp_var_ratio = self.data["explained_variance"] / self.data["total_variance"]', 'expvar = self.data["explained_variance"]\n        totvar = self.data["total_variance"]\n        exp_var_ratio = expvar / totvar')
M("C17", "norms matched to the scores by alignment", BMSS, '            norms = self.data["norms"].sel(mode=scores.mode)\n            scores = scores * norms\n', '            scores = scores * self.data["norms"]\n', "GUARD.modes.select.entry")
M("C11", "pseudo norms as a share of the retained squared singular values", EROT, "        norms = (expvar * (n_samples - 1)) ** 0.5\n", '        norms = (expvar / expvar.sum("mode") * (model.data["norms"].sel(mode=slice(1, n_modes)) ** 2).sum("mode")) ** 0.5\n', "NORM.pseudo")
