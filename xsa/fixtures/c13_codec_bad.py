# Positive fixture for C13 SERIAL.codec: the attribute decoder as it was before the fix.
# The rule must report both constructs on every run (expected count on the real tree is zero).
from ast import literal_eval
from typing import Any


def _should_desanitize(attr: Any) -> bool:
    if isinstance(attr, str):
        if (
            (attr[0] == "{" and attr[-1] == "}")
            or (attr[0] == "[" and attr[-1] == "]")
            or (attr in ["True", "False"])
            or (attr == "None")
        ):
            return True
    return False


def _desanitize_attrs_nc(dt):
    for node in dt.subtree:
        for key, attr in node.attrs.items():
            if _should_desanitize(attr):
                node.attrs[key] = literal_eval(attr)
    return dt
