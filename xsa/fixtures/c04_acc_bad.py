# Positive fixture for C04 ACC: multi-set CCA.transform as it was before the fix (the list is
# rebound in the loop instead of appended to). The rule must report it on every run.
def transform(self, views):
    view_preprocessed = []
    for i, view in enumerate(views):
        view_preprocessed = self.preprocessors[i].transform(view)

    transformed_views = self._transform(view_preprocessed)
    return transformed_views
