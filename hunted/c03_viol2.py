# C03: transform(inverse_transform(s)) == s for arbitrary scores s; here the fitted field has a
# descending latitude (as in ERA5 etc.) and two feature dimensions.
import os, sys
sys.path.insert(0, os.path.dirname(os.path.abspath(__file__)))
import warnings; warnings.filterwarnings("ignore")
import numpy as np, xarray as xr
import xeofs
assert xeofs.__file__.startswith(os.path.dirname(os.path.abspath(__file__)))
from xeofs.single import EOF

rng = np.random.default_rng(0)
X = xr.DataArray(rng.normal(size=(20, 3, 4)) + 5.0, dims=("time", "lat", "lon"),
                 coords={"time": np.arange(20), "lat": [30., 0., -30.], "lon": [0., 10., 20., 30.]})
m = EOF(n_modes=12, solver="full").fit(X, "time")
s = xr.DataArray(rng.normal(size=(4, 12)), dims=("time", "mode"),
                 coords={"time": [100, 101, 102, 103], "mode": np.arange(1, 13)})
rec = m.inverse_transform(s)
print("fitted lat:", X.lat.values, " reconstructed lat:", rec.lat.values)
try:
    t = m.transform(rec)
except Exception as e:
    print(f"VIOLATION: expected transform(inverse_transform(s)) to return s, got {type(e).__name__}: {e} "
          f"(inverse_transform returned latitude {rec.lat.values.tolist()} for a model fitted on {X.lat.values.tolist()}, "
          "and transform rejects its own reconstruction)")
    sys.exit(1)
e = float(abs(t.transpose(*s.dims) - s).max())
if e > 1e-8:
    print(f"VIOLATION: transform(inverse_transform(s)) differs from s by {e}")
    sys.exit(1)
print("OK")
