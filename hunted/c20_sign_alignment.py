import warnings; warnings.filterwarnings("ignore")
import numpy as np, xarray as xr
import xeofs.validation.bootstrapper as bmod
bmod.trange = range
from xeofs.single import EOF, ComplexEOF
from xeofs.validation import EOFBootstrapper
rng = np.random.default_rng(0)
t = np.arange(40)
A = xr.DataArray(rng.standard_normal((40, 4)) * [3, 2, 1, .5] + 5, dims=("time", "x"), coords={"time": t, "x": np.arange(4)})
def min_corr(m, seed=1, nb=10):
    b = EOFBootstrapper(n_bootstraps=nb, seed=seed); b.fit(m)
    S = b.data["scores"].transpose("n", "sample", "mode").values; M = m.data["scores"].transpose("sample", "mode").values
    out = []
    for i in range(nb):
        for j in range(M.shape[1]):
            a, r = S[i, :, j], M[:, j]
            out.append((np.mean((a - a.mean()) * np.conj(r - r.mean())) / a.std() / r.std()).real)
    return min(out)
print("center=False  min corr:", min_corr(EOF(n_modes=4, center=False).fit(A, "time")))
print("ComplexEOF    min corr:", min_corr(ComplexEOF(n_modes=4).fit(A + 1j * A.roll(time=2), "time")))
m = EOF(n_modes=4).fit(A.rename(time="n"), "n"); b = EOFBootstrapper(n_bootstraps=2, seed=1); b.fit(m)
try: b.scores()
except Exception as e: print("sample dim named 'n':", repr(e))
import sys
bad = [min_corr(EOF(n_modes=4, center=False).fit(A, "time")), min_corr(ComplexEOF(n_modes=4).fit(A + 1j * A.roll(time=2), "time"))]
if min(bad) < -1e-8:
    print("VIOLATION: bootstrap members correlate negatively with the model's modes", bad); sys.exit(1)
print("OK")
