import numpy as np, xarray as xr, xeofs
bad=False
rng=np.random.default_rng(0)
X=xr.DataArray(rng.standard_normal((20,4,6)),dims=("time","lat","lon"),coords={"time":np.arange(20),"lat":np.arange(4)*10.,"lon":np.arange(6)*10.})
m=xeofs.single.EOF(n_modes=3).fit(X,dim="time")
# superset of lon labels
X2=xr.DataArray(rng.standard_normal((5,4,8)),dims=("time","lat","lon"),coords={"time":np.arange(5),"lat":np.arange(4)*10.,"lon":np.arange(8)*10.})
try:
    r=m.transform(X2); print("VIOLATION: superset of the fitted labels accepted:",dict(r.sizes)); bad=True
except Exception as e: print("superset refused:",type(e).__name__,str(e)[:80])
# Dataset variable lacking a feature dim
ds=xr.Dataset({"a":X,"b":X*2})
md=xeofs.single.EOF(n_modes=3).fit(ds,dim="time")
ds2=xr.Dataset({"a":X.isel(lon=0,drop=True),"b":X*2})
try:
    r=md.transform(ds2); print("VIOLATION: Dataset variable lacking lon accepted:",dict(r.sizes)); bad=True
except Exception as e: print("dataset refused:",type(e).__name__,str(e)[:80])
# center False
m0=xeofs.single.EOF(n_modes=3,center=False).fit(X,dim="time")
try:
    r=m0.transform(X2); print("VIOLATION: superset accepted (center=False):",dict(r.sizes)); bad=True
except Exception as e: print("superset refused (center=False):",type(e).__name__,str(e)[:80])

import sys
if bad: sys.exit(1)
print('OK')
