import os, sys
sys.path.insert(0, os.path.dirname(os.path.abspath(__file__)))
import warnings
warnings.filterwarnings("ignore")
import numpy as np, xarray as xr
import xeofs as xe
assert xe.__file__.startswith(os.path.dirname(os.path.abspath(__file__)))

# C08: use_coslat=True is equivalent to user weights sqrt(cos(latitude)).
rng = np.random.default_rng(0)
X = xr.DataArray(rng.normal(size=(20, 4, 3)), dims=("time", "lat", "lon"),
                 coords=dict(time=np.arange(20), lat=[-70.0, -20.0, 30.0, 80.0], lon=[0.0, 10.0, 20.0]))
w = np.sqrt(np.cos(np.deg2rad(X.lat)))   # the natural way to build the weights; the result is named "lat"

def run(**fitkw):
    kw = dict(use_coslat=True) if not fitkw else {}
    m = xe.single.EOF(n_modes=3, solver="full", **kw).fit(X, dim="time", **fitkw)
    rot = xe.single.EOFRotator(n_modes=2).fit(m)      # plain in-memory sequence, no file involved
    rec = rot.inverse_transform(rot.scores())
    try:
        pc = rot.transform(X)
    except Exception as e:
        pc = f"{type(e).__name__}: {e}"
    return pc, rec

pc_ref, rec_ref = run()                  # use_coslat=True
pc, rec = run(weights=w)                 # equivalent user weights
bad = []
if rec.shape != rec_ref.shape or not np.allclose(rec, rec_ref):
    bad.append(f"inverse_transform returned shape {rec.shape} instead of {rec_ref.shape}")
if isinstance(pc, str):
    bad.append(f"transform(X) raised {pc}")
elif not np.allclose(pc, pc_ref):
    bad.append("transform(X) differs")
if bad:
    print("VIOLATION: EOF(use_coslat=True) -> EOFRotator works, but the equivalent fit with "
          "weights=sqrt(cos(X.lat)) does not: " + "; ".join(bad))
    sys.exit(1)
print("OK")
