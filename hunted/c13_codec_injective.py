import numpy as np, xarray as xr, copy
import xeofs
from xeofs.utils.io import _sanitize_attrs_nc, _desanitize_attrs_nc
rng=np.random.default_rng(0)
X=xr.DataArray(rng.standard_normal((20,5)),dims=("time","x"),coords={"time":np.arange(20),"x":np.arange(5)},
   attrs={"units":"[m/s]","note":"[1, 2]","flag":"True","q":"'abc'","empty":"","none":"None"})
X["x"].attrs["levels"]="[1, 2]"
m=xeofs.single.EOF(n_modes=3).fit(X,dim="time")
dt=m.serialize()
def collect(dt):
    out={}
    for node in dt.subtree:
        for k,v in node.attrs.items(): out[(node.path,k)]=v
        for var in node.variables:
            for k,v in node[var].attrs.items(): out[(node.path,var,k)]=v
    return out
before=collect(copy.deepcopy(dt))
dt2=_desanitize_attrs_nc(_sanitize_attrs_nc(dt))
after=collect(dt2)
bad={k:(before[k],after.get(k)) for k in before if type(before[k])!=type(after.get(k)) or before[k]!=after.get(k)}
for k,v in list(bad.items())[:20]: print(k,v)
print(len(bad),"differ of",len(before))
import sys
if bad: print("VIOLATION: attributes change under the netCDF attribute codec"); sys.exit(1)
print("OK")
m2=xeofs.single.EOF.deserialize(dt2)
print(m2.components().attrs.get("note"), m.components().attrs.get("note"))
print({k:v for k,v in m2.inverse_transform(m2.scores()).attrs.items()})
print(m2.inverse_transform(m2.scores()).x.attrs)
