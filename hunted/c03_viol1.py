# C03: HilbertEOF(center=False), all modes kept: inverse_transform(scores()) must return the fitted data.
import os, sys
sys.path.insert(0, os.path.dirname(os.path.abspath(__file__)))
import warnings; warnings.filterwarnings("ignore")
import numpy as np, xarray as xr
import xeofs
assert xeofs.__file__.startswith(os.path.dirname(os.path.abspath(__file__)))
from xeofs.single import HilbertEOF, EOF

rng = np.random.default_rng(0)
X = xr.DataArray(rng.normal(size=(20, 3, 4)) + 5.0, dims=("time", "lat", "lon"),
                 coords={"time": np.arange(20), "lat": [-30., 0., 30.], "lon": [0., 10., 20., 30.]})

def err(cls, **kw):
    m = cls(n_modes=12, solver="full", **kw).fit(X, "time")
    r = m.inverse_transform(m.scores()).transpose(*X.dims)
    return float(abs(r - X).max() / abs(X).max())

e_ref = err(EOF, center=False)           # same flags, plain EOF: exact
e_c   = err(HilbertEOF, center=True)     # Hilbert, centred: exact
e_nc  = err(HilbertEOF, center=False)    # Hilbert, not centred
e_ncp = err(HilbertEOF, center=False, padding=None)
print(f"EOF(center=False) {e_ref:.1e}; HilbertEOF(center=True) {e_c:.1e}; "
      f"HilbertEOF(center=False) {e_nc:.1e}; HilbertEOF(center=False, padding=None) {e_ncp:.1e}")
if max(e_nc, e_ncp) > 1e-8:
    print("VIOLATION: expected HilbertEOF(center=False).inverse_transform(scores()) to return the fitted data "
          f"(rel. error <= 1e-8 as with center=True), got rel. error {e_nc:.2f}: the temporal mean of every feature is missing")
    sys.exit(1)
print("OK")
