"""C05: new data with the same feature layout are rejected because of metadata that is not part of
the layout: a scalar coordinate (e.g. the ensemble member the samples were selected from) or
attributes on a feature coordinate."""
import os, sys
sys.path.insert(0, os.path.dirname(os.path.abspath(__file__)))
import warnings; warnings.filterwarnings("ignore")
import numpy as np, xarray as xr
import xeofs as xe
assert xe.__file__.startswith(os.path.dirname(os.path.abspath(__file__)))

rng = np.random.default_rng(0)
full = xr.DataArray(rng.normal(size=(2, 8, 5)), dims=("member", "time", "x"),
                    coords={"member": [0, 1], "time": np.arange(8), "x": np.arange(5.0)})
fails = []

# (a) fit on member 0, transform member 1: same dims, same feature coordinates,
#     only the scalar coordinate 'member' differs (0 -> 1)
train = full.sel(member=0)
model = xe.single.EOF(n_modes=2, solver="full").fit(train, dim="time")
comps = model.components()
mean = train.mean("time")
new = full.sel(member=1)
expected = xr.dot(new - mean, comps, dims="x")
try:
    got = model.transform(new)
    if not np.allclose(got.transpose(*expected.dims).values, expected.values, rtol=1e-8, atol=1e-10):
        fails.append("(a) wrong scores")
except Exception as e:
    fails.append(f"(a) new data differ only in a scalar coordinate (member=1 instead of 0): {type(e).__name__}: {e}")

# (b) same data, the feature coordinate merely carries an attribute
new = train.isel(time=[0, 1, 2]).copy()
new.coords["x"].attrs["units"] = "m"
try:
    got = model.transform(new)
    if not np.allclose(got.values, model.scores().isel(time=[0, 1, 2]).values, rtol=1e-8, atol=1e-10):
        fails.append("(b) wrong scores")
except Exception as e:
    fails.append(f"(b) new data differ only in attrs of the feature coordinate: {type(e).__name__}: {e}")

if fails:
    print("VIOLATION: expected scores for new data sharing the feature layout; " + " | ".join(fails))
    sys.exit(1)
print("OK")
