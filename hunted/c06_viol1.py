# C06: data containing a NaN that is not a fully missing feature/sample must be rejected at transform.
# List input: a sample that is NaN throughout ONE list item only (finite in the other item) is not a fully
# missing sample (the same values passed as one Dataset / one concatenated DataArray are refused), yet
# transform() accepts it and silently returns NaN scores for that sample.
import os, sys
sys.path.insert(0, os.path.dirname(os.path.abspath(__file__)))
import types
sys.modules.setdefault("statsmodels", types.ModuleType("statsmodels"))
import warnings
warnings.filterwarnings("ignore")
import numpy as np
import xarray as xr
import xeofs
assert xeofs.__file__.startswith(os.path.dirname(os.path.abspath(__file__)))
from xeofs.single import EOF
from xeofs.cross import MCA

rng = np.random.default_rng(0)
t = np.arange(8)
a = xr.DataArray(rng.normal(size=(8, 3)), dims=("t", "x"), coords={"t": t, "x": np.arange(3)})
b = xr.DataArray(rng.normal(size=(8, 4)), dims=("t", "y"), coords={"t": t, "y": np.arange(4)})
c = xr.DataArray(rng.normal(size=(8, 5)), dims=("t", "z"), coords={"t": t, "z": np.arange(5)})
a_bad = a.copy()
a_bad[2, :] = np.nan  # sample t=2: NaN in item `a` only, finite in item `b`

problems = []

# reference: the very same numbers as ONE array are (correctly) refused
model1 = EOF(n_modes=2, solver="full").fit(xr.concat([a.rename(x="f"), b.rename(y="f").assign_coords(f=np.arange(3, 7))], "f"), dim="t")
try:
    model1.transform(xr.concat([a_bad.rename(x="f"), b.rename(y="f").assign_coords(f=np.arange(3, 7))], "f"))
    problems.append("single DataArray with the same partial NaN was accepted too")
except ValueError:
    pass

model = EOF(n_modes=2, solver="full").fit([a, b], dim="t")
try:
    scores = model.transform([a_bad, b])
    problems.append(
        "EOF.transform([a_bad, b]) did not raise; returned scores with %d NaN values at t=%s"
        % (int(scores.isnull().sum()), scores.t.values[scores.isnull().any("mode").values].tolist())
    )
except Exception:
    pass

mca = MCA(n_modes=2, use_pca=False, solver="full").fit([a, b], c, dim="t")
try:
    sx = mca.transform(X=[a_bad, b])
    problems.append("MCA.transform(X=[a_bad, b]) did not raise; %d NaN scores" % int(sx.isnull().sum()))
except Exception:
    pass
try:
    p = mca.predict([a_bad, b])
    problems.append("MCA.predict([a_bad, b]) did not raise; %d NaN predicted scores" % int(p.isnull().sum()))
except Exception:
    pass

if problems:
    print("VIOLATION: expected an error for transform data with a NaN that is neither a fully missing feature nor a fully missing sample; got: " + "; ".join(problems))
    sys.exit(1)
print("OK")
