import os, sys
sys.path.insert(0, os.path.dirname(os.path.abspath(__file__)))
import warnings; warnings.filterwarnings("ignore")
import numpy as np, xarray as xr
import xeofs
assert xeofs.__file__.startswith(os.path.dirname(os.path.abspath(__file__)))
from xeofs.single import SparsePCA, EOF

# C17: non-positive n_modes and negative alpha must be refused, never answered.
rng = np.random.default_rng(0)
X = xr.DataArray(rng.standard_normal((30, 4, 3)), dims=("time", "x", "y"),
                 coords={"time": np.arange(30), "x": np.arange(4.0), "y": np.arange(3.0)})

accepted = []
for solver in ("full", "randomized"):
    # non-positive n_modes
    try:
        m = SparsePCA(n_modes=0, solver=solver, random_state=1).fit(X, "time")
        accepted.append(f"n_modes=0, solver={solver} -> components {dict(m.components().sizes)}, "
                        f"scores {dict(m.scores().sizes)}")
    except Exception:
        pass
    # negative sparsity penalty
    try:
        m = SparsePCA(n_modes=2, alpha=-1.0, solver=solver, random_state=1).fit(X, "time")
        c = m.components()
        accepted.append(f"alpha=-1.0, solver={solver} -> {c.size} finite component values, "
                        f"max |c| = {float(abs(c).max()):.3g}")
    except Exception:
        pass
try:
    EOF(n_modes=0, solver="full").fit(X, "time"); ctrl = "accepts"
except Exception as e:
    ctrl = f"raises {type(e).__name__}"
if accepted:
    print(f"VIOLATION: expected SparsePCA to refuse n_modes=0 (EOF {ctrl}) and a negative alpha; "
          "instead it fitted and returned: " + "; ".join(accepted))
    sys.exit(1)
print("OK")
sys.exit(0)
