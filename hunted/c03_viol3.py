# C03: CPCCA (alpha < 1), all modes / no PCA truncation: the field whose feature count equals n_modes must be
# reconstructed exactly "in physical units" -- the result must not depend on the unit the data are expressed in.
import os, sys, types
sys.path.insert(0, os.path.dirname(os.path.abspath(__file__)))
sys.modules.setdefault("statsmodels", types.ModuleType("statsmodels"))
import warnings; warnings.filterwarnings("ignore")
import numpy as np, xarray as xr
import xeofs
assert xeofs.__file__.startswith(os.path.dirname(os.path.abspath(__file__)))
from xeofs.cross import CPCCA

rng = np.random.default_rng(0)
nt = 30
X0 = xr.DataArray(rng.normal(size=(nt, 2, 3)) + 4, dims=("time", "lat", "lon"),
                  coords={"time": np.arange(nt), "lat": [-30., 30.], "lon": [0., 10., 20.]})
Y0 = xr.DataArray(rng.normal(size=(nt, 8)) - 2, dims=("time", "station"),
                  coords={"time": np.arange(nt), "station": np.arange(8)})
Y0[:, 0] += 2 * X0.values[:, 0, 0]

def err(scale, **kw):
    X, Y = X0 * scale, Y0 * scale          # e.g. a trace-gas mixing ratio in mol/mol instead of nmol/mol
    m = CPCCA(n_modes=6, solver="full", **kw).fit(X, Y, "time")   # X has 6 features = n_modes
    sx, sy = m.scores()
    rx, _ = m.inverse_transform(sx, sy)
    return float(abs(rx.transpose(*X.dims) - X).max() / abs(X).max())

bad = []
for kw in (dict(alpha=0.5, use_pca=False), dict(alpha=0.0, use_pca=True, n_pca_modes="all")):
    e1, e2 = err(1.0, **kw), err(1e-8, **kw)
    print(kw, f"rel. error, data*1: {e1:.1e}; data*1e-8: {e2:.1e}")
    if e2 > 1e-8:
        bad.append((kw, e2))
print("alpha=1 (no whitening), data*1e-8:", f"{err(1e-8, alpha=1.0, use_pca=False):.1e}")
if bad:
    print(f"VIOLATION: expected the full-mode CPCCA reconstruction of X to equal X (rel. error <= 1e-8) whatever the unit, "
          f"got rel. error {bad[0][1]:.2f} for the same data multiplied by 1e-8 (only the mean is returned)")
    sys.exit(1)
print("OK")
