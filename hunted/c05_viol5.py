"""C05 (call sequence): a rotator fitted with compute=False keeps a reference to the base model's
preprocessor; refitting the base model on other data silently changes what the (already fitted)
rotator returns from transform."""
import os, sys
sys.path.insert(0, os.path.dirname(os.path.abspath(__file__)))
import warnings; warnings.filterwarnings("ignore")
import numpy as np, xarray as xr
import xeofs as xe
assert xe.__file__.startswith(os.path.dirname(os.path.abspath(__file__)))

rng = np.random.default_rng(0)
X = xr.DataArray(rng.normal(size=(8, 5)), dims=("time", "x"),
                 coords={"time": np.arange(8), "x": np.arange(5)})
other = X + 5.0                                   # other data, same layout

base = xe.single.EOF(n_modes=3, solver="full").fit(X, dim="time")
rot = xe.single.EOFRotator(n_modes=3, compute=False).fit(base)
sub = X.isel(time=[1, 4])
scores_sub = rot.scores().isel(time=[1, 4])
before = rot.transform(sub)
assert np.allclose(before.values, scores_sub.values, rtol=1e-8, atol=1e-10)   # property holds here

base.fit(other, dim="time")                       # the rotator is not refitted
after = rot.transform(sub)
err = float(np.abs(after - scores_sub).max())
if err > 1e-8:
    print("VIOLATION: rot.transform(subset of the training samples) should equal the subset of rot.scores() "
          f"and depend only on the samples and the fitted rotator; after base.fit(other data) it differs by {err:.3g} "
          f"(before the refit of the base model the difference was {float(np.abs(before - scores_sub).max()):.1e})")
    sys.exit(1)
print("OK")
