"""C14: serialize()/compute()/rotator.fit(model) must not change later answers or labels,
and the user's input objects must stay untouched.

Transformer._serialize_data() sets `data.name = key` IN PLACE on the live attributes of the
fitted transformers.  (a) The Scaler keeps the user's own `weights` object, so the user's
DataArray is renamed to "weights_" by model.serialize() (and by compute(), save(), or by
fitting a rotator with compute=True on the model).  (b) PCA.V of a cross-set model is renamed
from None to "V", which changes the name (label) of what model.components() returns.
"""
import os, sys, types
sys.path.insert(0, os.path.dirname(os.path.abspath(__file__)))
sys.modules.setdefault("statsmodels", types.ModuleType("statsmodels"))
import warnings; warnings.filterwarnings("ignore")
import numpy as np, xarray as xr
import xeofs as xe
assert xe.__file__.startswith(os.path.dirname(os.path.abspath(__file__)))

rng = np.random.default_rng(0)
t = np.arange(20)
X = xr.DataArray(rng.standard_normal((20, 5)), dims=("time", "x"), coords={"time": t, "x": np.arange(5)})
Y = xr.DataArray(rng.standard_normal((20, 4)), dims=("time", "y"), coords={"time": t, "y": np.arange(4)})
problems = []

# (a) user's weights object is modified by serialize()
w = xr.DataArray(np.linspace(1, 2, 5), dims="x", coords={"x": np.arange(5)})
w_name_before = w.name
m = xe.single.EOF(n_modes=2, solver="full").fit(X, "time", weights=w)
assert w.name == w_name_before          # fit itself leaves it alone
m.serialize()
if w.name != w_name_before:
    problems.append(f"user's weights DataArray had name {w_name_before!r} before and {w.name!r} after model.serialize()")

# (b) fitting a rotator on a model changes the labels of the model's own components
mca = xe.cross.MCA(n_modes=2, use_pca=True, n_pca_modes=3, solver="full").fit(X, Y, "time")
names_before = [c.name for c in mca.components()]
xe.cross.MCARotator(n_modes=2).fit(mca)
names_after = [c.name for c in mca.components()]
if names_before != names_after:
    problems.append(f"names of mca.components() were {names_before} before and {names_after} after MCARotator.fit(mca)")

mca2 = xe.cross.MCA(n_modes=2, use_pca=True, n_pca_modes=3, solver="full").fit(X, Y, "time")
nb = [c.name for c in mca2.components()]
mca2.serialize()
na = [c.name for c in mca2.components()]
if nb != na:
    problems.append(f"names of mca.components() were {nb} before and {na} after mca.serialize()")

if not problems:
    print("OK"); sys.exit(0)
print("VIOLATION: expected serialize()/rotator.fit(model) to leave the user's inputs and the model's labels untouched; " + "; ".join(problems))
sys.exit(1)
