import os, sys
sys.path.insert(0, os.path.dirname(os.path.abspath(__file__)))
import warnings; warnings.filterwarnings("ignore")
import numpy as np, xarray as xr
import xeofs
assert xeofs.__file__.startswith(os.path.dirname(os.path.abspath(__file__)))
from xeofs.multi import CCA
from xeofs.single import EOF

# C17: data for transform whose number of items differs from the fitted data must be refused.
def field(nt, nx, seed):
    r = np.random.default_rng(seed)
    return xr.DataArray(r.standard_normal((nt, nx)), dims=("time", "x"),
                        coords={"time": np.arange(nt), "x": np.arange(float(nx))})

A, B, C = field(40, 4, 0), field(40, 3, 1), field(40, 5, 2)
model = CCA(n_modes=2, pca=False).fit([A, B, C], "time")
nA, nB, nC = field(6, 4, 10), field(6, 3, 11), field(6, 5, 12)
assert len(model.transform([nA, nB, nC])) == 3          # valid call

# control: a single-set model fitted on a list refuses a list of another length
try:
    EOF(n_modes=2, solver="full").fit([A, B, C], "time").transform([nA, nB]); ctrl = "accepts"
except Exception as e:
    ctrl = f"raises {type(e).__name__}"

accepted = []
for label, views in {"2 of 3 views": [nA, nB], "1 of 3 views": [nA], "empty list": []}.items():
    try:
        out = model.transform(views)
        accepted.append(f"{label} -> list of {len(out)} score arrays")
    except Exception:
        pass
if accepted:
    print("VIOLATION: expected multi.CCA.transform to refuse a list whose length differs from the 3 fitted views "
          f"(EOF fitted on a list {ctrl}); instead it returned: " + "; ".join(accepted))
    sys.exit(1)
print("OK")
sys.exit(0)
