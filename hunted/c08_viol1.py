import os, sys
sys.path.insert(0, os.path.dirname(os.path.abspath(__file__)))
import types
sys.modules.setdefault("statsmodels", types.ModuleType("statsmodels"))
import warnings
warnings.filterwarnings("ignore")
import numpy as np, xarray as xr
import xeofs as xe
assert xe.__file__.startswith(os.path.dirname(os.path.abspath(__file__)))

# C08: multiplying the whole input by c must leave all variance/covariance fractions
# (and correlations) unchanged.
rng = np.random.default_rng(0)
n = 200
t = np.arange(n)
z = rng.normal(size=(n, 2))                      # two latent signals
# 4 X-features: smooth mixtures of the latent signals + 1% independent noise
# (neighbouring grid points of a smooth field); 2 Y-features
Xv = z @ rng.normal(size=(2, 4)) + 0.01 * rng.normal(size=(n, 4))
Yv = z @ rng.normal(size=(2, 2)) + 0.5 * rng.normal(size=(n, 2))
X = xr.DataArray(Xv, dims=("time", "x"), coords=dict(time=t, x=np.arange(4)))
Y = xr.DataArray(Yv, dims=("time", "y"), coords=dict(time=t, y=np.arange(2)))

def fit(c):
    out = {}
    m = xe.cross.MCA(n_modes=2, use_pca=False, solver="full").fit(X * c, Y * c, dim="time")
    out["MCA.fraction_variance_Y_explained_by_X"] = m.fraction_variance_Y_explained_by_X().values
    m = xe.cross.CCA(n_modes=2, use_pca=False, solver="full").fit(X * c, Y * c, dim="time")
    out["CCA.cross_correlation_coefficients"] = m.cross_correlation_coefficients().values
    out["CCA.squared_covariance_fraction"] = m.squared_covariance_fraction().values
    return out

c = 1e-6
assert float((X * c).std("time").min()) > 1.2e-7 and float((Y * c).std("time").min()) > 1.2e-7
ref, got = fit(1.0), fit(c)
bad = []
for k in ref:
    a, b = ref[k], got[k]
    if not (np.all(np.isfinite(b)) and np.allclose(a, b, rtol=1e-6, atol=0)):
        bad.append(f"{k}: c=1 -> {a}, c={c} -> {b}")
if bad:
    print("VIOLATION: fractions/correlations must not change when X and Y are multiplied by c=1e-6 "
          "(all feature std > 1.2e-7), but: " + "; ".join(bad))
    sys.exit(1)
print("OK")
