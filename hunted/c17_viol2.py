import os, sys
sys.path.insert(0, os.path.dirname(os.path.abspath(__file__)))
import warnings; warnings.filterwarnings("ignore")
import numpy as np, xarray as xr
import xeofs
assert xeofs.__file__.startswith(os.path.dirname(os.path.abspath(__file__)))
from xeofs.single import POP, EOF

# C17: non-positive / non-numeric n_modes, more modes than the rank and unknown solver
# names must be refused at construction or at fit - by every model class.
rng = np.random.default_rng(0)
X = xr.DataArray(rng.standard_normal((30, 4, 3)), dims=("time", "x", "y"),
                 coords={"time": np.arange(30), "x": np.arange(4.0), "y": np.arange(3.0)})

faults = {
    "n_modes=0": dict(n_modes=0),
    "n_modes=-1": dict(n_modes=-1),
    "n_modes='foo'": dict(n_modes="foo"),
    "n_modes=100 (rank 12)": dict(n_modes=100),
    "solver='foo'": dict(n_modes=2, solver="foo"),
}
accepted = []
for label, kw in faults.items():
    # control: the same fault is refused by EOF
    try:
        EOF(**kw).fit(X, "time"); ctrl = "EOF accepts"
    except Exception as e:
        ctrl = f"EOF raises {type(e).__name__}"
    try:
        m = POP(use_pca=False, **kw).fit(X, "time")
        c = m.components()
        accepted.append(f"{label} -> components {dict(c.sizes)} ({ctrl})")
    except Exception:
        pass

if accepted:
    print("VIOLATION: expected POP to refuse invalid n_modes / unknown solver at construction or fit; "
          "instead it fitted and returned numbers for: " + "; ".join(accepted))
    sys.exit(1)
print("OK")
sys.exit(0)
