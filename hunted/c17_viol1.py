import os, sys
sys.path.insert(0, os.path.dirname(os.path.abspath(__file__)))
import warnings; warnings.filterwarnings("ignore")
import numpy as np, xarray as xr
import xeofs
assert xeofs.__file__.startswith(os.path.dirname(os.path.abspath(__file__)))
from xeofs.single import EOF

# C17: transform data whose feature coordinate is re-ordered (positions hold different
# values than at fit) must be refused (as it is for a plain index) - or at the very least
# be aligned by label - never answered with numbers that belong to neither reading.
rng = np.random.default_rng(0)
def field(nt, seed):
    r = np.random.default_rng(seed)
    return xr.DataArray(r.standard_normal((nt, 4, 3)), dims=("time", "x", "y"),
                        coords={"time": np.arange(nt), "x": np.arange(4.0), "y": np.arange(3) * 10.0})

X = field(20, 0).stack(loc=("x", "y"))          # feature dimension carries a MultiIndex
model = EOF(n_modes=2, solver="full").fit(X, "time")

new = field(5, 1).stack(loc=("x", "y"))
ref = model.transform(new)                      # valid call
rev = new.isel(loc=slice(None, None, -1))       # single fault: feature coordinate reversed

# control: same fault on a plain (non-Multi) index is refused by the library
Xp = field(20, 0).isel(y=0, drop=True); newp = field(5, 1).isel(y=0, drop=True)
mp = EOF(n_modes=2, solver="full").fit(Xp, "time")
try:
    mp.transform(newp.isel(x=slice(None, None, -1)))
    plain = "accepted"
except Exception as e:
    plain = f"refused ({type(e).__name__})"

try:
    out = model.transform(rev)
except Exception as e:
    print(f"OK (refused: {type(e).__name__}: {e})")
    sys.exit(0)

if np.allclose(out.values, ref.values, rtol=1e-8, atol=1e-10):
    print("OK (aligned by label, same scores as for the un-reordered data)")
    sys.exit(0)
print("VIOLATION: expected transform() to refuse data whose MultiIndex feature coordinate is reversed "
      f"(the same fault on a plain index is {plain}) or to align it by label; instead it silently returned "
      f"scores that differ from the label-aligned ones by up to {float(abs(out.values - ref.values).max()):.3g} "
      "(mean removed by label, projection done by position)")
sys.exit(1)
