#!/bin/bash
# usage: run_all_on.sh <repo-dir>   -- run every claimed check (quick tier) against a foreign tree, print non-zero exits
d=$1
cd /verif
for p in C01 C02 C03 C04 C05 C06 C07 C08 C09 C10 C11 C12 C13 C14 C15 C16 C17 C18 C20; do
  ( out=$(/venv/bin/python -m xsa.run $p --repo $d 2>&1); rc=$?; if [ $rc -ne 0 ]; then echo "== $p rc=$rc"; echo "$out" | grep -v KNOWN-FINDING | cut -c1-420 | head -12; fi ) &
done
wait
echo "done $d"
