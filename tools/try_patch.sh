#!/bin/bash
# usage: try_patch.sh <patch.diff> [props...]  -- apply a patch to a scratch copy of /repo HEAD and run checks there
patch=$1; shift
props=${@:-C01 C02 C03 C04 C05 C06 C07 C08 C09 C10 C11 C12 C13 C14 C15 C16 C17 C18 C20}
d=$(mktemp -d /tmp/xsa_try_XXXX)
git -C /repo archive HEAD xeofs | tar -x -C $d
( cd $d && patch -p1 -s < $patch ) || { echo "patch failed"; rm -rf $d; exit 3; }
cd /verif
for p in $props; do
  out=$(/venv/bin/python -m xsa.run $p --repo $d 2>&1); rc=$?
  if [ $rc -ne 0 ]; then echo "== $p rc=$rc"; echo "$out" | grep -v "KNOWN-FINDING" | cut -c1-360 | head -6; fi
done
rm -rf $d
