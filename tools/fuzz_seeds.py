#!/usr/bin/env python3
"""Detection under rewriting (development aid): every stored seeded change is applied to a scratch copy of /repo HEAD,
the whole tree is then put through behaviour-preserving rewrites (tools/benign_fuzz.py), and the check of the seeded
property must still report a violation.

usage: fuzz_seeds.py [transform ...]   (default: all)
"""
import ast
import os
import shutil
import subprocess
import sys
import tempfile
from concurrent.futures import ThreadPoolExecutor

sys.path.insert(0, os.path.dirname(os.path.abspath(__file__)))
import benign_fuzz as bf  # noqa: E402

VERIF = bf.VERIF


def one(args):
    name, tname = args
    prop = name[:3]
    tmp = tempfile.mkdtemp(prefix=f"xsa_fs_{name}_")
    try:
        subprocess.run(f"git -C /repo archive HEAD xeofs | tar -x -C {tmp}", shell=True, check=True)
        r = subprocess.run(f"patch -p1 -s < {VERIF}/seeded/{name}/patch.diff", shell=True, cwd=tmp, capture_output=True, text=True)
        if r.returncode != 0:
            return name, tname, "PATCH-FAILED", ""
        for dp, dn, fns in os.walk(os.path.join(tmp, "xeofs")):
            for fn in fns:
                if fn.endswith(".py"):
                    p = os.path.join(dp, fn)
                    tree = ast.parse(open(p).read())
                    for nm in (list(bf.TRANSFORMS) if tname == "all" else [tname]):
                        tree = bf.TRANSFORMS[nm]().visit(tree)
                        ast.fix_missing_locations(tree)
                    open(p, "w").write(ast.unparse(tree) + "\n")
        r = subprocess.run([bf.PY, "-m", "xsa.run", prop, "--repo", tmp], cwd=VERIF, capture_output=True, text=True)
        rule = ""
        for l in r.stdout.splitlines():
            if f" {prop}." in l and "KNOWN-FINDING" not in l:
                rule = l.split("  ")[1] if "  " in l else l[:80]
                break
        return name, tname, r.returncode, rule or r.stdout.strip().splitlines()[-1][:160]
    finally:
        shutil.rmtree(tmp, ignore_errors=True)


def main():
    ts = sys.argv[1:] or ["all"]
    names = sorted(d for d in os.listdir(os.path.join(VERIF, "seeded")) if os.path.exists(os.path.join(VERIF, "seeded", d, "patch.diff")))
    jobs = [(n, t) for t in ts for n in names]
    bad = 0
    with ThreadPoolExecutor(max_workers=12) as ex:
        for name, t, rc, rule in ex.map(one, jobs):
            flag = "ok " if rc == 1 else "MISS"
            if rc != 1:
                bad += 1
            print(f"{flag} {name:6s} [{t}] rc={rc} {rule}")
    print("seeded changes no longer reported after rewriting:", bad)


if __name__ == "__main__":
    main()
