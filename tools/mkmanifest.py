#!/usr/bin/env python3
"""Generate /verif/MANIFEST.json from the table in xsa/claims.py and validate it."""
import json
import os
import sys

HERE = os.path.dirname(os.path.dirname(os.path.abspath(__file__)))
sys.path.insert(0, HERE)
from xsa.claims import CLAIMS, NOT_APPLICABLE, FIX_COMMITS  # noqa: E402

PY = "/venv/bin/python"
checks = []
for pid, c in sorted(CLAIMS.items()):
    checks.append(
        {
            "property_id": pid,
            "quick_cmd": f"{PY} -m xsa.run {pid} --tier quick",
            "thorough_cmd": f"{PY} -m xsa.run {pid} --tier thorough",
            "evidence_file": f"/verif/evidence/{pid}.json",
            "replay_cmd_template": f"{PY} -m xsa.run {pid} --replay {{path}}",
            "engine": "xsa",
            "level_claimed": {
                "category": "other",
                "text": c["text"],
                "design_ref": c.get("design_ref", f"DESIGN.md section 4, {pid}"),
            },
            "level_note": c["note"],
            "technique": c["technique"],
        }
    )
manifest = {
    "version": 1,
    "setup_cmd": f"{PY} -m compileall -q xsa",
    "hooks": {
        "guard": "XEOFS_VERIF",
        "enable": "none needed: the checks parse /repo/xeofs, nothing is instrumented or executed",
        "baseline_off_cmd": "cd /repo && /venv/bin/python -m pytest -ra -q -p no:cacheprovider --timeout=900 --continue-on-collection-errors",
        "source_commits": [],
        "add_only": True,
    },
    "engines": [
        {
            "name": "xsa",
            "path": "/verif/xsa",
            "serves_properties": sorted(CLAIMS),
            "kind_free_text": "repo-specific static analysis over Python ast: resolved program model (imports, C3 MRO, "
            "attribute types, call graph), statement CFG with dominators, reaching definitions, def-use provenance, "
            "constructor-parameter flow, taint/typestate/ownership rules; never imports or runs xeofs",
        }
    ],
    "checks": checks,
    "notes": "Static analysis only. Each check decides named structural clauses (necessary conditions) of its property, "
    "not the numerical behaviour; see level_note per check and DESIGN.md. Exit 2 + 'ANALYSIS-ERROR' means an anchor "
    "vanished, the checker's self-test failed, an unmet obligation sits behind dynamic dispatch (UNDECIDED), or (thorough tier) "
    "the verdict changed on one of 17 behaviour-preserving rewrites of the tree - never a verdict. thorough = quick + engine unit "
    "tests + mutant/benign corpus + metamorphic pass (DESIGN 11.10). fix: commits in /repo: " + ", ".join(FIX_COMMITS),
    "not_applicable": [{"property_id": k, "reason": v} for k, v in sorted(NOT_APPLICABLE.items())],
}
out = os.path.join(HERE, "MANIFEST.json")
with open(out, "w") as f:
    json.dump(manifest, f, indent=1)
try:
    import jsonschema

    jsonschema.validate(manifest, json.load(open("/root/.vp/MANIFEST.schema.json")))
    print("MANIFEST.json valid;", len(checks), "checks,", len(NOT_APPLICABLE), "not applicable")
except ImportError:
    print("MANIFEST.json written (jsonschema not importable here)")
ids = {json.loads(l)["id"] for l in open(os.path.join(HERE, "properties.jsonl"))}
assert ids == set(CLAIMS) | set(NOT_APPLICABLE), (ids - set(CLAIMS) - set(NOT_APPLICABLE), (set(CLAIMS) | set(NOT_APPLICABLE)) - ids)
assert not (set(CLAIMS) & set(NOT_APPLICABLE))
