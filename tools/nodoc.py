"""Print python source with docstrings and blank lines removed, keeping line numbers."""
import ast, sys
for path in sys.argv[1:]:
    src = open(path).read()
    tree = ast.parse(src)
    skip = set()
    for node in ast.walk(tree):
        if isinstance(node, (ast.FunctionDef, ast.ClassDef, ast.AsyncFunctionDef, ast.Module)):
            b = node.body
            if b and isinstance(b[0], ast.Expr) and isinstance(b[0].value, ast.Constant) and isinstance(b[0].value.value, str):
                for l in range(b[0].lineno, b[0].end_lineno + 1):
                    skip.add(l)
    print("=====", path)
    for i, line in enumerate(src.splitlines(), 1):
        if i in skip or not line.strip():
            continue
        print(f"{i:4d} {line}")
