#!/usr/bin/env python3
"""Operator-level mutation sweep (development aid, not a registered check).

For each mutant of the listed xeofs files (one AST-level edit: swap an arithmetic operator, drop a
method call such as .conj(), flip a comparison, negate an if-test, change a small constant, swap two
call arguments, delete a statement) this tool
  1. writes the mutated tree to a scratch copy under $TMPDIR,
  2. runs the relevant part of the pinned test suite there (the mutant 'survives' if it passes),
  3. runs every xsa check against the scratch copy,
and prints one JSON line per mutant: {file, line, kind, before, after, survives_tests, caught_by}.
Survivors that no check reports are the interesting ones (equivalent mutant, out of family, or a gap).

usage: mutate.py --out results.jsonl [--jobs 14] [--limit N] [--seed S] file1.py file2.py ...
"""
import argparse
import ast
import copy
import json
import os
import random
import shutil
import subprocess
import sys
import tempfile
from concurrent.futures import ProcessPoolExecutor

PY = "/venv/bin/python"
VERIF = os.path.dirname(os.path.dirname(os.path.abspath(__file__)))
REPO = "/repo"

TESTS_FOR = {
    "xeofs/preprocessing": ["tests/preprocessing", "tests/models/single/test_eof.py"],
    "xeofs/linalg": ["tests/linalg", "tests/models/single/test_eof.py", "tests/models/single/test_eof_rotator.py"],
    "xeofs/single": ["tests/models/single", "tests/validation"],
    "xeofs/utils": ["tests/utils", "tests/models/single/test_eof.py", "tests/preprocessing"],
    "xeofs/validation": ["tests/validation"],
    "xeofs/multi": ["tests/models/multi"],
    "xeofs/data_container": ["tests/data_container", "tests/models/single/test_eof.py"],
    "xeofs/base_model.py": ["tests/models/single/test_eof.py", "tests/models/single/test_eof_rotator.py"],
    "xeofs/cross": [],  # not collected (statsmodels absent): every cross mutant survives the pinned suite
}


class Mutant:
    def __init__(self, kind, node_path, before, after, lineno):
        self.kind, self.before, self.after, self.lineno = kind, before, after, lineno


def candidates(tree: ast.Module):
    """yield (kind, mutate_fn, lineno, before_text) ; mutate_fn(tree_copy_node) edits in place"""
    out = []
    for node in ast.walk(tree):
        if isinstance(node, ast.BinOp):
            swaps = {ast.Add: ast.Sub, ast.Sub: ast.Add, ast.Mult: ast.Div, ast.Div: ast.Mult}
            if type(node.op) in swaps and not (isinstance(node.left, ast.Constant) and isinstance(node.left.value, str)):
                out.append(("binop", node, swaps[type(node.op)]))
        elif isinstance(node, ast.Call) and isinstance(node.func, ast.Attribute) and node.func.attr in ("conj", "copy", "real") and not node.args:
            out.append(("dropcall", node, None))
        elif isinstance(node, ast.Attribute) and node.attr in ("T", "real") and isinstance(node.ctx, ast.Load):
            out.append(("dropattr", node, None))
        elif isinstance(node, ast.Compare) and len(node.ops) == 1:
            flips = {ast.Lt: ast.LtE, ast.LtE: ast.Lt, ast.Gt: ast.GtE, ast.GtE: ast.Gt, ast.Eq: ast.NotEq, ast.NotEq: ast.Eq}
            if type(node.ops[0]) in flips:
                out.append(("compare", node, flips[type(node.ops[0])]))
        elif isinstance(node, ast.If) and not isinstance(node.test, ast.Constant):
            out.append(("negate_if", node, None))
        elif isinstance(node, ast.Constant) and isinstance(node.value, int) and not isinstance(node.value, bool) and node.value in (0, 1, 2, -1):
            out.append(("const", node, None))
        elif isinstance(node, ast.Constant) and isinstance(node.value, bool):
            out.append(("bool", node, None))
        elif isinstance(node, ast.Subscript) and isinstance(node.slice, ast.Slice) and node.slice.step is not None:
            out.append(("dropstep", node, None))
        elif isinstance(node, ast.Call) and len(node.args) >= 2 and not any(isinstance(a, ast.Starred) for a in node.args):
            out.append(("swapargs", node, None))
        elif isinstance(node, (ast.Expr, ast.Assign, ast.AugAssign)) and not (isinstance(node, ast.Expr) and isinstance(node.value, ast.Constant)):
            out.append(("delstmt", node, None))
    return out


def apply(tree, kind, node, arg):
    before = ast.unparse(node)[:90]
    if kind == "binop":
        node.op = arg()
    elif kind == "dropcall":
        repl = node.func.value
        _replace(tree, node, repl)
    elif kind == "dropattr":
        _replace(tree, node, node.value)
    elif kind == "compare":
        node.ops = [arg()]
    elif kind == "negate_if":
        node.test = ast.UnaryOp(op=ast.Not(), operand=node.test)
    elif kind == "const":
        node.value = {0: 1, 1: 0, 2: 1, -1: 1}[node.value]
    elif kind == "bool":
        node.value = not node.value
    elif kind == "dropstep":
        node.slice.step = None
    elif kind == "swapargs":
        node.args[0], node.args[1] = node.args[1], node.args[0]
    elif kind == "delstmt":
        _replace(tree, node, ast.Pass())
    return before


def _replace(tree, old, new):
    for parent in ast.walk(tree):
        for field, value in ast.iter_fields(parent):
            if isinstance(value, list):
                for i, v in enumerate(value):
                    if v is old:
                        value[i] = new
                        return
            elif value is old:
                setattr(parent, field, new)
                return


def tests_for(rel):
    for k, v in TESTS_FOR.items():
        if rel.startswith(k):
            return v
    return ["tests"]


def run_one(job):
    rel, idx, kind = job["file"], job["idx"], job["kind"]
    src = open(os.path.join(REPO, rel)).read()
    tree = ast.parse(src)
    cands = candidates(tree)
    k, node, arg = cands[idx]
    lineno = getattr(node, "lineno", 0)
    before = apply(tree, k, node, arg)
    ast.fix_missing_locations(tree)
    try:
        new_src = ast.unparse(tree)
        compile(new_src, rel, "exec")
    except Exception as e:
        return None
    tmp = tempfile.mkdtemp(prefix="xsa_mut_")
    res = {"file": rel, "line": lineno, "kind": k, "before": before}
    try:
        subprocess.run(f"git -C {REPO} archive HEAD xeofs tests pyproject.toml | tar -x -C {tmp}", shell=True, check=True)
        open(os.path.join(tmp, rel), "w").write(new_src)
        after_node = None
        res["after"] = ""
        tests = tests_for(rel)
        if tests:
            env = dict(os.environ, PYTHONPATH=tmp)
            r = subprocess.run(
                [PY, "-m", "pytest", "-q", "-x", "-p", "no:cacheprovider", "--timeout=300", "-q"] + tests,
                cwd=tmp, env=env, capture_output=True, text=True, timeout=1500,
            )
            res["survives_tests"] = r.returncode == 0
        else:
            res["survives_tests"] = True
            res["tests"] = "none collected for this file"
        caught = {}
        if res["survives_tests"]:
            props = sorted(p[:-3].upper() for p in os.listdir(os.path.join(VERIF, "xsa", "rules")) if p[0] == "c" and p[1:3].isdigit() and p.endswith(".py"))
            for p in props:
                r = subprocess.run([PY, "-m", "xsa.run", p, "--repo", tmp], cwd=VERIF, capture_output=True, text=True, timeout=600)
                if r.returncode == 1:
                    lines = [l for l in r.stdout.splitlines() if f" {p}." in l and "KNOWN-FINDING" not in l]
                    caught[p] = lines[0].split("  ")[1] if lines else "?"
                elif r.returncode == 2:
                    caught[p] = "ANALYSIS-ERROR " + r.stdout.strip().splitlines()[-1][:120]
        res["caught_by"] = caught
    except subprocess.TimeoutExpired:
        res["survives_tests"] = False
        res["caught_by"] = {}
        res["note"] = "timeout"
    finally:
        shutil.rmtree(tmp, ignore_errors=True)
    return res


def main():
    ap = argparse.ArgumentParser()
    ap.add_argument("files", nargs="+")
    ap.add_argument("--out", required=True)
    ap.add_argument("--jobs", type=int, default=14)
    ap.add_argument("--limit", type=int, default=0)
    ap.add_argument("--seed", type=int, default=0)
    a = ap.parse_args()
    jobs = []
    for rel in a.files:
        tree = ast.parse(open(os.path.join(REPO, rel)).read())
        doc = set()
        for n in ast.walk(tree):
            if isinstance(n, (ast.FunctionDef, ast.ClassDef, ast.Module)) and n.body and isinstance(n.body[0], ast.Expr) and isinstance(n.body[0].value, ast.Constant):
                doc.add(id(n.body[0]))
        for i, (k, node, arg) in enumerate(candidates(tree)):
            if id(node) in doc:
                continue
            jobs.append({"file": rel, "idx": i, "kind": k})
    random.Random(a.seed).shuffle(jobs)
    if a.limit:
        jobs = jobs[: a.limit]
    print(f"{len(jobs)} mutants", file=sys.stderr)
    with open(a.out, "a") as out, ProcessPoolExecutor(max_workers=a.jobs) as ex:
        for r in ex.map(run_one, jobs):
            if r is not None:
                out.write(json.dumps(r) + "\n")
                out.flush()


if __name__ == "__main__":
    main()
