#!/usr/bin/env python3
"""Behaviour-preserving rewrites of the whole xeofs tree (development aid, not a registered check).

Each transformation is applied to every file of a scratch copy of /repo HEAD; the scratch copy is byte-compiled,
optionally exercised with a part of the pinned suite (--tests) to confirm that behaviour did not change, and every
xsa check is run against it.  A check that exits 1 on such a tree raised a false alarm; exit 2 means an anchor moved
beyond what the analysis follows.  Both are listed.

usage: benign_fuzz.py [--tests] [--keep] [transform ...]
transforms: rename_locals swap_if_else flip_compare reorder_kwargs match_to_if ifexp_swap split_chains not_compare all
"""
import ast
import builtins
import copy
import os
import shutil
import subprocess
import sys
import tempfile

PY = "/venv/bin/python"
VERIF = os.path.dirname(os.path.dirname(os.path.abspath(__file__)))
REPO = "/repo"
PROPS = ["C01", "C02", "C03", "C04", "C05", "C06", "C07", "C08", "C09", "C10", "C11", "C12", "C13", "C14", "C15", "C16", "C17", "C18", "C20"]
BUILTINS = set(dir(builtins))


sys.path.insert(0, VERIF)
from xsa.metamorphic import TRANSFORMS  # noqa: E402


def build(tname: str) -> str:
    tmp = tempfile.mkdtemp(prefix=f"xsa_bf_{tname}_")
    subprocess.run(f"git -C {REPO} archive HEAD xeofs tests pyproject.toml | tar -x -C {tmp}", shell=True, check=True)
    n = 0
    for dp, dn, fns in os.walk(os.path.join(tmp, "xeofs")):
        for fn in fns:
            if not fn.endswith(".py"):
                continue
            p = os.path.join(dp, fn)
            src = open(p).read()
            tree = ast.parse(src)
            names = list(TRANSFORMS) if tname == "all" else [tname]
            for nm in names:
                tree = TRANSFORMS[nm]().visit(tree)
                ast.fix_missing_locations(tree)
            new = ast.unparse(tree)
            compile(new, p, "exec")
            if new != ast.unparse(ast.parse(src)):
                n += 1
            open(p, "w").write(new + "\n")
    print(f"[{tname}] {n} files changed -> {tmp}", flush=True)
    return tmp


def run_checks(tmp: str, tname: str) -> int:
    bad = 0
    procs = {p: subprocess.Popen([PY, "-m", "xsa.run", p, "--repo", tmp], cwd=VERIF, stdout=subprocess.PIPE, stderr=subprocess.STDOUT, text=True) for p in PROPS}
    for p, pr in procs.items():
        out, _ = pr.communicate()
        if pr.returncode != 0:
            bad += 1
            lines = [l for l in out.splitlines() if "KNOWN-FINDING" not in l]
            print(f"[{tname}] {p} rc={pr.returncode}")
            for l in lines[:8]:
                print("     " + l[:330])
    return bad


def run_tests(tmp: str, tname: str):
    env = dict(os.environ, PYTHONPATH=tmp)
    r = subprocess.run([PY, "-m", "pytest", "-q", "-x", "-p", "no:cacheprovider", "--timeout=600", "tests/preprocessing", "tests/models/single", "tests/linalg", "tests/utils",
                        "tests/data_container", "tests/validation"], cwd=tmp, env=env, capture_output=True, text=True)
    print(f"[{tname}] tests: rc={r.returncode} {r.stdout.strip().splitlines()[-1] if r.stdout.strip() else ''}")


def main():
    args = [a for a in sys.argv[1:] if not a.startswith("--")]
    names = args or list(TRANSFORMS)
    total = 0
    for t in names:
        tmp = build(t)
        try:
            if "--tests" in sys.argv:
                run_tests(tmp, t)
            total += run_checks(tmp, t)
        finally:
            if "--keep" not in sys.argv:
                shutil.rmtree(tmp, ignore_errors=True)
    print("checks with a non-zero exit:", total)


if __name__ == "__main__":
    main()
