#!/bin/bash
# apply every stored behaviour-preserving refactoring (benign/*.diff) to a scratch copy of /repo HEAD and run all checks:
# exit 1 of a check on such a tree is a false alarm; exit 2 means "cannot decide" (anchor moved / dynamic dispatch)
cd /verif
for f in benign/*.diff; do
  d=$(mktemp -d /tmp/xsa_rb_XXXX); git -C /repo archive HEAD xeofs | tar -x -C $d
  (cd $d && patch -p1 -s < /verif/$f) || { echo "$f PATCH-FAILED"; rm -rf $d; continue; }
  r1=""; r2=""
  for p in C01 C02 C03 C04 C05 C06 C07 C08 C09 C10 C11 C12 C13 C14 C15 C16 C17 C18 C20; do
    /venv/bin/python -m xsa.run $p --repo $d > /dev/null 2>&1; rc=$?
    [ $rc -eq 1 ] && r1="$r1 $p"; [ $rc -eq 2 ] && r2="$r2 $p"
  done
  echo "$f false-alarms(exit1):[${r1# }] undecided(exit2):[${r2# }]"
  rm -rf $d
done
