#!/usr/bin/env python3
"""Write one prompt per property for a round of independent seeding agents and create their worktrees.

usage: mk_seed_prompts.py <suffix>      e.g. `g` -> /tmp/prompts/Cnn.md, worktrees /tmp/seed_Cnn<suffix>

The prompt contains ONLY the property text (title, statement, quantifier, why_tests_cant, anchors), the delivery format,
and a list of slips that earlier rounds already produced (so that the agents do not hand in the same change again -
round 10 did not name the stored changes and 9 of 19 agents re-produced one).  Nothing from /verif's machinery.
Start each agent with: "Your complete instructions are in /tmp/prompts/Cnn.md - read it fully first and follow it exactly.
Work only inside /tmp/seed_Cnn<suffix>. Do not read anything under /verif or /repo."
Take the results with tools/take_seed.py <Cnn> /tmp/seed_Cnn<suffix> Cnn<suffix> --suite.
"""
import json
import os
import subprocess
import sys

VERIF = os.path.dirname(os.path.dirname(os.path.abspath(__file__)))

AVOID = """Changes that earlier rounds already produced - do NOT hand in one of these or a close variant:
N-1 -> N in a variance/covariance; dropping or adding one `.conj()`/`.T`; T <-> Tinv; un-sorting the modes or sorting by another key; `join="override"` in xr.concat;
hard-coded "sample"/"feature"; `.values`/`float()` on a lazy array; appending to a transformer list without reset; forgetting to forward one constructor option
(center/standardize/check_nans/random_state/solver_kwargs) to an inner model; seed used only when truthy; in-place `*=` on a stored array inside an accessor;
aliasing two dicts (`a = b = {}`); a cached_property surviving refit; positional re-labelling of weights/coords; `sorted()` over string-number keys; set-comparison of labels;
std clipping floor depending on data; `.astype(data.dtype)` of weights; taking `.real` too early; sign multiplier folded in before the re-sort; delay-embedding slice off by tau;
moving total variance before Hilbert augmentation; inverse permutation in a re-sort; rotation matrix R used where R^-H is needed; removing an input validation outright;
`scores * norms` without `.sel(mode=scores.mode)`; MultiIndexConverter storing the transform-time index only when it differs from the fitted one (or falling back to the
fit index); isolated-NaN predicate against the per-sample maximum; `DataContainer(model.data)` dropping allow_compute flags; `_post_compute()` inside deserialisation;
`PCA.fit` / a model writing the resolved n_modes back into its configuration; the Whitener kernel output Tinv labelled (feature, mode); a random Generator created in
`__init__` and reused by every fit; explained variance as the variance of the scores; a floor / clip on the total variance in explained_variance_ratio;
MultiIndex levels taken from the coordinates lying along the dimension; get_dims re-ordering the sample dims to the data's layout; `np.isclose` in the variance-threshold
count; `sortby` before lagged statistics; one-pass variance in Scaler.fit; cross-correlation through a label-aligned xr.dot; rotator pseudo-norms not from (N-1)."""

TEMPLATE = """# Task: seed one subtle defect that breaks a stated property of the Python library xeofs

You work ONLY inside the git worktree `{wt}` (a checkout of the xeofs repository at its current HEAD). Do not read or write
anything under /verif or /repo, and do not look at other /tmp/seed_* directories. Python: `/venv/bin/python`; run things with
`cd {wt} && PYTHONPATH={wt} /venv/bin/python ...` (check `xeofs.__file__` once). NEVER use `git stash` (the stash is shared by all
worktrees of the repository): to test both directions use `git diff -- xeofs > /tmp/{name}.patch; git apply -R /tmp/{name}.patch; ...; git apply /tmp/{name}.patch`.

## The property (this text is all you get about what must hold)

**{pid} - {title}**

Statement: {statement}

Quantifier: {quant}

Why the existing tests cannot settle it: {why}

Anchors (where the behaviour lives): {anchors}

## What to deliver

1. ONE change under `{wt}/xeofs/` (a few lines, possibly two cooperating sites) after which the property is FALSE for some input / call
   sequence in its quantifier, while the package still imports and the repository's own suite still passes entirely:
   `cd {wt} && PYTHONPATH={wt} /venv/bin/python -m pytest -q -p no:cacheprovider --timeout=900 --continue-on-collection-errors 2>&1 | tail -3`
   (about 3 minutes, expect `1781 passed`; tests/models/cross is not collected here because `statsmodels` is missing). Do not touch any test.
2. `{wt}/demo_{name}.py`: exits 0 and prints PASS on the UNCHANGED code, exits 1 (printing what differs) WITH the change; it checks the property
   as stated (against numpy or against the accessor the property relates it to), with a sensible tolerance, without knowledge of the change.
   For `xeofs.cross` models put `import sys, types; sys.modules.setdefault("statsmodels", types.ModuleType("statsmodels"))` before importing
   xeofs (GWPCA needs numba, which is absent).
3. Leave the change UNCOMMITTED and the demo untracked in the worktree.

## What kind of change is wanted

Something a maintainer could plausibly write in a refactor or feature commit and review could miss - no sabotage, no dead code, no
`if special_input:`. It must need something SPECIFIC to manifest: a kind of input (layout, dtype, complex, dask, NaN pattern, Dataset vs
list, MultiIndex, unsorted / descending / repeated labels, extreme scale), an option combination, a multi-step call sequence (fit ->
transform -> accessor, fit twice, save -> load -> transform, compute=False -> compute()), or two sites that each look fine alone.
Prefer a value that is still computed correctly but used, stored, ordered, labelled or propagated wrongly, or a step done for one kind of
input / container / code path but not for its sibling.

{hint}

{avoid}

## Final answer

Files and functions changed; one paragraph on the change and why it breaks the property; exactly what it needs to manifest; the tail of the
suite run; the demo's output with and without the change. If you notice that the UNCHANGED code already contradicts the property for some
input, report that separately with a minimal script (valuable), but still deliver the seeded change.
"""


def main():
    suffix = sys.argv[1] if len(sys.argv) > 1 else "g"
    hints = {}
    hp = os.path.join(VERIF, "notes", f"seed_hints_{suffix}.json")
    if os.path.exists(hp):
        hints = json.load(open(hp))
    os.makedirs("/tmp/prompts", exist_ok=True)
    for line in open(os.path.join(VERIF, "properties.jsonl")):
        d = json.loads(line)
        pid = d["id"]
        if pid == "C19":
            continue
        name = f"{pid}{suffix}"
        wt = f"/tmp/seed_{name}"
        hint = f"For this property look in particular at: {hints[pid]}." if pid in hints else ""
        txt = TEMPLATE.format(wt=wt, name=name, pid=pid, title=d["title"], statement=d["statement"], quant=d["quantifier"]["text"],
                              why=d["why_tests_cant"], anchors=json.dumps(d.get("anchors", {}), indent=1), hint=hint, avoid=AVOID)
        open(f"/tmp/prompts/{pid}.md", "w").write(txt)
        if not os.path.exists(wt):
            subprocess.run(["git", "-C", "/repo", "worktree", "add", "--detach", "-q", wt, "HEAD"], check=True)
    print("prompts in /tmp/prompts, worktrees /tmp/seed_C??" + suffix)


if __name__ == "__main__":
    main()
