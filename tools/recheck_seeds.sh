#!/bin/bash
# re-verify that every stored seeded change is still reported by the check of its own property (quick tier)
cd /verif
for d in seeded/*/; do
  name=$(basename $d); prop=${name:0:3}
  ( t=$(mktemp -d /tmp/xsa_rs_XXXX); git -C /repo archive HEAD xeofs | tar -x -C $t; (cd $t && patch -p1 -s < /verif/$d/patch.diff) || echo "$name PATCH-FAILED";
    out=$(/venv/bin/python -m xsa.run $prop --repo $t 2>&1); rc=$?
    rule=$(echo "$out" | grep -v KNOWN | grep " $prop\." | head -1 | awk '{print $2}')
    echo "$name target=$prop rc=$rc $rule"; rm -rf $t ) &
  while [ $(jobs -r | wc -l) -ge 12 ]; do sleep 0.5; done
done
wait
