#!/usr/bin/env python3
"""Take a seeded defect produced by a sub-agent in /tmp/seed_<id>[suffix], verify it, store it under
/verif/seeded/<name>/ and record which checks catch it.

usage: take_seed.py <property id> [worktree] [name] [--suite]
"""
import json
import os
import subprocess
import sys
import time

PY = "/venv/bin/python"
VERIF = os.path.dirname(os.path.dirname(os.path.abspath(__file__)))


def sh(cmd, cwd=None, env=None, timeout=3600):
    e = dict(os.environ)
    if env:
        e.update(env)
    r = subprocess.run(cmd, shell=True, cwd=cwd, env=e, capture_output=True, text=True, timeout=timeout)
    return r.returncode, (r.stdout + r.stderr)


def main():
    args = [a for a in sys.argv[1:] if not a.startswith("--")]
    pid = args[0]
    wt = args[1] if len(args) > 1 else f"/tmp/seed_{pid}"
    name = args[2] if len(args) > 2 else pid
    run_suite = "--suite" in sys.argv
    out = os.path.join(VERIF, "seeded", name)
    os.makedirs(out, exist_ok=True)
    rc, diff = sh("git diff -- xeofs", cwd=wt)
    if not diff.strip():
        print("no source change in", wt)
        return 1
    open(os.path.join(out, "patch.diff"), "w").write(diff)
    demos = [f for f in os.listdir(wt) if f.startswith("demo_") and f.endswith(".py")]
    if not demos:
        print("no demo in", wt)
        return 1
    demo = demos[0]
    sh(f"cp {wt}/{demo} {out}/{demo}")
    env = {"PYTHONPATH": wt}
    # with the change
    rc_with, o_with = sh(f"{PY} {demo}", cwd=wt, env=env)
    # without the change
    # NOT git stash: refs/stash is shared by all worktrees of one repository (concurrent agents pop each other's changes)
    pf = os.path.join(out, "patch.diff")
    rc_r, o_r = sh(f"git apply -R {pf}", cwd=wt)
    if rc_r != 0:
        print("cannot revert the change in the worktree:", o_r[-300:])
        return 1
    try:
        rc_without, o_without = sh(f"{PY} {demo}", cwd=wt, env=env)
    finally:
        rc_pop, o_pop = sh(f"git apply {pf}", cwd=wt)
    ok_demo = rc_without == 0 and rc_with != 0
    suite = None
    if run_suite:
        t0 = time.time()
        rc_s, o_s = sh(f"{PY} -m pytest -q -p no:cacheprovider --timeout=900 --continue-on-collection-errors 2>&1 | tail -3", cwd=wt, env=env)
        suite = {"rc": rc_s, "tail": o_s.strip().splitlines()[-1] if o_s.strip() else "", "wall_s": round(time.time() - t0)}
    # which checks catch it: the patch applied to a scratch copy of the CURRENT /repo tree (outside /repo and /verif)
    import tempfile, shutil
    scratch = tempfile.mkdtemp(prefix="xsa_seed_")
    sh(f"git -C /repo archive HEAD xeofs | tar -x -C {scratch}")
    rc_a, o_a = sh(f"patch -p1 -s < {out}/patch.diff", cwd=scratch)
    if rc_a != 0:
        print("patch does not apply to current /repo HEAD:", o_a[-300:])
    chk_repo = scratch if rc_a == 0 else wt
    caught = {}
    props = sorted(p[:-3].upper() for p in os.listdir(os.path.join(VERIF, "xsa", "rules")) if p.startswith("c") and p[1:3].isdigit() and p.endswith(".py"))
    for p in props:
        rc_c, o_c = sh(f"{PY} -m xsa.run {p} --repo {chk_repo}", cwd=VERIF, env={"XSA_NO_EVIDENCE": "1"})
        lines = [l for l in o_c.splitlines() if f" {p}." in l and "KNOWN-FINDING" not in l and not l.startswith(p + ":")]
        if rc_c == 1:
            caught[p] = [l[:300] for l in lines][:4]
        elif rc_c == 2:
            caught[p] = ["ANALYSIS-ERROR: " + o_c.strip().splitlines()[-1][:300]]
    shutil.rmtree(scratch, ignore_errors=True)
    meta = {
        "property": pid,
        "worktree": wt,
        "patch_applies_to_repo_head": rc_a == 0,
        "demo": demo,
        "demo_without_change": {"rc": rc_without, "tail": o_without.strip()[-300:]},
        "demo_with_change": {"rc": rc_with, "tail": o_with.strip()[-600:]},
        "demo_discriminates": ok_demo,
        "suite_with_change": suite,
        "caught_by": caught,
        "caught_by_target_check": pid in caught and not caught[pid][0].startswith("ANALYSIS-ERROR"),
    }
    # keep hand-written fields of an existing meta.json
    mp = os.path.join(out, "meta.json")
    if os.path.exists(mp):
        old = json.load(open(mp))
        for k in ("needs", "notes", "what_i_ran"):
            if k in old:
                meta[k] = old[k]
    json.dump(meta, open(mp, "w"), indent=1)
    print(json.dumps({k: meta[k] for k in ("demo_discriminates", "suite_with_change", "caught_by_target_check")}, indent=1))
    for p, ls in caught.items():
        print(p, ls[0][:200])
    return 0


if __name__ == "__main__":
    sys.exit(main())
